#!/bin/bash
# usage: bin/eval_seed.sh <seed-dir> <seed-name> <PROPERTY-ID> [extra check IDs...]
# Confirms a seeded breaking change in a scratch worktree (patch applies, test-suite passes with it, demo fails with it and passes
# without it), then applies it to /repo, runs the quick check(s), reverts, and stores everything under /verif/seeded/<seed-name>/.
set -u
SRC="$1"; NAME="$2"; PID="$3"; shift 3
EXTRA="$*"
OUT=/verif/seeded/$NAME
WT=$(mktemp -d /tmp/evseed.XXXXXX)
trap 'git -C /repo worktree remove --force "$WT" >/dev/null 2>&1; rm -rf "$WT"; git -C /repo checkout -- . ' EXIT
git -C /repo worktree add -q --detach "$WT" HEAD || exit 2
run_py() { (cd "$WT" && PYTHONPATH="$WT/src" TQDM_DISABLE=1 MPLBACKEND=Agg /venv/bin/python "$@"); }
# test-suite first (a demo may leave files behind), then the demo with and without the change
git -C "$WT" apply "$SRC/patch.diff" || { echo "RESULT $NAME: patch does not apply"; exit 2; }
TESTS=$( (cd "$WT" && PYTHONPATH="$WT/src" /venv/bin/python -m pytest -q -p no:cacheprovider --timeout=900 2>&1 | tail -1) )
run_py "$SRC/demo.py" >/tmp/evseed_demo1.txt 2>&1; D1=$?
git -C "$WT" apply -R "$SRC/patch.diff"
run_py "$SRC/demo.py" >/tmp/evseed_demo0.txt 2>&1; D0=$?
echo "demo unchanged: exit $D0; demo with change: exit $D1; tests with change: $TESTS"
CONFIRMED=false
if [ "$D0" = "0" ] && [ "$D1" != "0" ] && echo "$TESTS" | grep -q "61 passed" && ! echo "$TESTS" | grep -q "failed"; then CONFIRMED=true; fi
# run the checks against the change in /repo itself
git -C /repo apply "$SRC/patch.diff" || { echo "RESULT $NAME: patch does not apply to /repo"; exit 2; }
RES=""
for id in $PID $EXTRA; do
  /verif/check "$id" --no-evidence >/tmp/evseed_check_$id.txt 2>&1; rc=$?
  viol=$(grep -c "^VIOLATION" /tmp/evseed_check_$id.txt)
  first=$(grep -A1 "^VIOLATION" /tmp/evseed_check_$id.txt | sed -n 2p | cut -c1-220)
  RES="$RES $id:exit=$rc:violations=$viol"
  echo "check $id: exit=$rc violations=$viol  $first"
  [ "$rc" = "3" ] && grep "^HARNESS-ERROR" /tmp/evseed_check_$id.txt | head -2 | cut -c1-300
done
git -C /repo checkout -- .
if $CONFIRMED; then
  mkdir -p "$OUT"
  cp "$SRC/patch.diff" "$OUT/patch.diff"; cp "$SRC/demo.py" "$OUT/demo.py"; [ -f "$SRC/notes.md" ] && cp "$SRC/notes.md" "$OUT/notes.md"
  python3 - "$OUT" "$NAME" "$PID" "$TESTS" "$D0" "$D1" "$RES" <<'EOF'
import json, sys, subprocess
out, name, pid, tests, d0, d1, res = sys.argv[1:8]
notes = open(out + '/notes.md').read() if __import__('os').path.exists(out + '/notes.md') else ''
meta = {
    'name': name, 'breaks_property': pid,
    'repo_commit': subprocess.check_output(['git', '-C', '/repo', 'rev-parse', '--short', 'HEAD']).decode().strip(),
    'needs_to_manifest': notes[:1500],
    'confirmed_in_scratch_worktree': {'tests_with_change': tests, 'demo_exit_unchanged': int(d0), 'demo_exit_with_change': int(d1)},
    'checks_run_against_it': {r.split(':')[0]: {'exit': int(r.split(':')[1].split('=')[1]), 'violations_printed': int(r.split(':')[2].split('=')[1])} for r in res.split()},
    'commands': ['git -C <worktree> apply patch.diff', 'PYTHONPATH=<worktree>/src /venv/bin/python -m pytest -q -p no:cacheprovider', 'python demo.py (with / without the change)',
                 'git -C /repo apply patch.diff; ./check <ID>; git -C /repo checkout -- .'],
}
json.dump(meta, open(out + '/meta.json', 'w'), indent=1)
EOF
  echo "RESULT $NAME: confirmed=$CONFIRMED $RES  -> $OUT"
else
  echo "RESULT $NAME: NOT confirmed (demo0=$D0 demo1=$D1 tests=$TESTS) $RES"
fi
