#!/bin/bash
# usage: bin/dev_seed.sh <patch.diff> <ID> [ID...]   -- development aid: runs quick checks against a scratch worktree with the patch
# applied (PYTHONPATH override; /repo is not touched).  The recorded evaluation of a seed is done by bin/eval_seed.sh against /repo.
set -u
P="$1"; shift
WT=$(mktemp -d /tmp/devseed.XXXXXX)
trap 'git -C /repo worktree remove --force "$WT" >/dev/null 2>&1; rm -rf "$WT"' EXIT
git -C /repo worktree add -q --detach "$WT" HEAD || exit 2
git -C "$WT" apply "$P" || { echo "patch does not apply"; exit 2; }
for id in "$@"; do
  PYTHONPATH="$WT/src" /verif/check "$id" --no-evidence >/tmp/devseed_$id.$$.txt 2>&1; rc=$?
  echo "check $id: exit=$rc violations=$(grep -c '^VIOLATION' /tmp/devseed_$id.$$.txt)  $(grep -A1 '^VIOLATION' /tmp/devseed_$id.$$.txt | sed -n 2p | cut -c1-260)"
  [ "$rc" = "3" ] && grep "^HARNESS-ERROR" /tmp/devseed_$id.$$.txt | head -2 | cut -c1-300
  rm -f /tmp/devseed_$id.$$.txt
done
