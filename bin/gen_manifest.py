#!/usr/bin/env python3
"""Regenerates /verif/MANIFEST.json from the table below (kept in one place so that it stays valid)."""
import json
import os

ROOT = os.path.dirname(os.path.dirname(os.path.abspath(__file__)))

ALL = [f"C{i:02d}" for i in range(1, 20)]

# property -> (design section, level text, level note, technique)
GENERIC_TEXT = ("Bounded symbolic execution of the real code (symx + z3): for every enumerated shape / constructor input every feasible "
                "path is explored with the numeric inputs as symbolic variables and each assertion is discharged by the solver for all "
                "values at once; every path has a concrete twin run on the real code and every counterexample is replayed concretely. ")
GENERIC_NOTE = ("Trusted: z3, the symx value classes (validated per path by the concrete twin), exact reals instead of IEEE floats (claim stated "
                "for the dyadic grid), shapes bounded as stated in the evidence file; stubs listed in the evidence 'assumptions'.")
GENERIC_TECH = "symbolic execution of the real Python code on z3-backed values; per-path validity queries (QF_LRA/QF_LIA/UF)"

# property -> (design section, specific text)
CLAIMED = {
    'C01': ("6/C01", "Relation equations are checked per clause against the times the library reports for the referenced operation, for all durations >= 0."),
    'C02': ("6/C02", "Listing = added leaves exactly once (by identity), causal, stable; symbolic durations and shared link objects make value-based merging of equal operations a solver-explored branch."),
    'C03': ("6/C03", "Differential on one path: history with observations vs the same mutations without them, final observations equal as solver-decided term equalities; plus 'reflects the change' against a fresh build under the final settings. lru_cache is modelled semantically on symbolic paths and validated by the concrete twin."),
    'C04': ("6/C04", "Span equation duration == max end - min start over the listed contents (z3 If-chains) for all durations >= 0, plus the follower clause."),
    'C05': ("6/C05", "All 26 copy() implementations: field-by-field, channel, duration-term, relation-structure, schedule and acquisition equality of copy and original, then independence under mutation of either side."),
    'C06': ("6/C06", "Counts, identity of untouched operations, reset, idempotence, chain equation start(copy k) = max end over relation leaves of copy k-1 (z3 If-max), n*T clause, library concatenation clause."),
    'C07': ("6/C07", "Index clauses (0..N-1, per qubit, filters, tag partition, record position) on enumerated measurement programs with registries of own/parent circuits; time-order clause as a solver-decided conjunction over symbolic durations."),
    'C08': ("6/C08", "Exported program vs an independent translation of the program, record lookbacks of detectors/observables as unbounded symbolic integers (fakestim on symbolic paths, real stim in the twin), before/after unrolling clauses."),
    'C09': ("6/C09", "Exported program executed on a symbolic-phase stabiliser tableau (signs = GF(2) affine forms over symbolic initial-state bits and fresh random-outcome variables); z3 decides record == prescribed terms and independence of detectors/observables from the random-outcome variables for all initial states at once."),
    'C10': ("6/C10", "No-overlap as one disjunctive validity query per path over the four global durations (unbounded, > 0), as constructed and after unrolling."),
    'C11': ("6/C11", "Flatten: same operation objects, no composite left, idempotence, readable (no relation cycle); library circuits: listing, schedule (term equality per object), acquisition indices and Stim program before/after."),
    'C12': ("6/C12", "Tiling, containment, disjointness, cover, translation and estimate clauses for unbounded symbolic round counts."),
    'C13': ("6/C13", "Round counts symbolic in [0,R]: the constructor's case split is discovered by forks/enumeration, kernel arithmetic stays symbolic; per-ancilla index sets by tag vs kernel getters, per-state calibration blocks, cycle length, 0-round exception."),
    'C14': ("6/C14", "Dresser executed on fakestim with symbolic T1/T2/assignment errors/durations and exp as an uninterpreted function: strip clause, ranges, sum <= 1, per-qubit assignment error, idle channel of every TICK-delimited block vs the T1/T2 formula at half the longest documented duration."),
    'C15': ("6/C15", "Class B: exporter executed on a recording platform (execution order of kernels, duplicate kernel names modelled), compared with an independent translation of the program; wait durations symbolic integers; the twin builds the real ql.Program."),
    'C16': ("6/C16", "Class B (finite): tables of the real predicates are read on every run and z3 decides the equivalence with the statement's predicate for all subsets of <= 4 edges x idle qubits at once; the composition lemma and the generator are executed on the real code within the stated bounds."),
    'C17': ("6/C17", "Class B (finite): shipped tables are read into z3 lookup tables and each clause is a solver witness query over layer/gate/qubit indices; derived and composite descriptions are executed on bounded families of involved-qubit subsets."),
    'C18': ("6/C18", "plot_circuit executed with the renderer replaced by construction of all draw components: pivots vs the schedule of a fresh identical circuit under the drawing's durations, rows, width, and non-mutation (retained objects and fresh listing) for all outer global durations; the twin renders with matplotlib."),
    'C19': ("6/C19", "Match/identity relations for unbounded symbolic ids and names; edge hash with uninterpreted hash functions; de-duplication on symbolic sequences."),
}

# what else takes part in deciding a property, beyond the generic per-path validity queries
TECH_EXTRA = {
    'C03': "; differential of two symbolic executions of the same history (with / without observations) on shared variables, equality of the final terms decided by z3",
    'C04': "; max/min over listed contents encoded as z3 If-chains (no forking)",
    'C06': "; chain equation with z3 If-max over relation leaves",
    'C09': "; exported program executed on a symbolic-phase Aaronson-Gottesman tableau (sign bits = GF(2) affine forms), z3 decides record == prescribed term for all initial states at once",
    'C10': "; one disjunctive no-overlap validity query per path over the four global durations",
    'C11': "; plus one ground (non-symbolic) deep-flatten witness stated as such in the evidence bounds",
    'C12': "; unbounded symbolic integers for round counts (QF_LIA)",
    'C14': "; exp() as an uninterpreted binary function (congruence only), probabilities as real terms",
    'C15': "; exporter executed on a recording stand-in of the OpenQL platform/program/kernel API",
    'C16': "; finite tables extracted from the real predicates on every run, equivalence with the statement's predicate decided by z3 over symbolic edge/qubit indices (bounded quantification over the extracted table)",
    'C17': "; shipped gate tables loaded into z3 lookup functions, one solver witness query per clause over symbolic layer/gate/qubit indices",
    'C19': "; uninterpreted hash functions for str/tuple hashing, names as (symbolic integer, case bit)",
}

NOT_YET = "check not built yet in this round (work in progress; see DESIGN.md section 6 for the plan)"
NOT_APPLICABLE = {}


def main():
    checks = []
    for pid in ALL:
        if pid not in CLAIMED:
            continue
        sec, spec = CLAIMED[pid]
        text, note, tech = GENERIC_TEXT + spec, GENERIC_NOTE, GENERIC_TECH + TECH_EXTRA.get(pid, '')
        checks.append({
            'property_id': pid,
            'quick_cmd': f"./check {pid} --tier quick",
            'thorough_cmd': f"./check {pid} --tier thorough",
            'evidence_file': f"evidence/{pid}.json",
            'replay_cmd_template': f"./check {pid} --replay {{path}}",
            'engine': 'symx',
            'level_claimed': {'category': 'model_checking', 'text': text, 'design_ref': sec},
            'level_note': note,
            'technique': tech,
        })
    na = []
    for pid in ALL:
        if pid in CLAIMED:
            continue
        na.append({'property_id': pid, 'reason': NOT_APPLICABLE.get(pid, NOT_YET)})
    manifest = {
        'version': 1,
        'setup_cmd': 'bin/ensure_env.sh',
        'hooks': {
            'guard': 'QCOCIRCUITS_VERIF',
            'enable': 'no source hooks are needed: every observation point is a public attribute; checks export QCOCIRCUITS_VERIF=1 but /repo does not read it',
            'baseline_off_cmd': 'cd /repo && /venv/bin/python -m pytest -ra -q -p no:cacheprovider --timeout=900 --continue-on-collection-errors',
            'source_commits': [],
            'add_only': True,
        },
        'engines': [
            {'name': 'symx', 'path': 'symx/', 'serves_properties': sorted(CLAIMED),
             'kind_free_text': 'symbolic execution of the real Python code by re-execution over z3-backed value objects (z3 5.1.0), '
                               'DFS over solver-decided branch prefixes, concrete twin per path, concrete replay of counterexamples'},
        ],
        'checks': checks,
        'not_applicable': na,
        'notes': 'Exit codes: 0 held / 1 VIOLATION (replay-confirmed, not a listed known finding) / 3 HARNESS-ERROR (inconclusive, never success). '
                 'Known findings and fixed defects: known_findings.json. Seeded breaking changes: seeded/.',
    }
    with open(os.path.join(ROOT, 'MANIFEST.json'), 'w') as f:
        json.dump(manifest, f, indent=1)
    print(f"MANIFEST.json: {len(checks)} checks, {len(na)} not_applicable")


if __name__ == '__main__':
    main()
