#!/bin/bash
# Idempotent: builds the /verif/.venv overlay on top of /venv (repo deps: numpy, stim, matplotlib, ...)
# and installs z3-solver + crosshair-tool from the offline wheelhouse.  No network needed.
set -e
HERE="$(cd "$(dirname "$0")/.." && pwd)"
VENV="$HERE/.venv"
STAMP="$VENV/.ok"
if [ -f "$STAMP" ] && "$VENV/bin/python" -c "import z3, crosshair, qce_circuit, stim" >/dev/null 2>&1; then
  exit 0
fi
(
  flock 9
  if [ -f "$STAMP" ] && "$VENV/bin/python" -c "import z3, crosshair, qce_circuit, stim" >/dev/null 2>&1; then
    exit 0
  fi
  rm -rf "$VENV"
  /venv/bin/python -m venv "$VENV"
  SP="$VENV/lib/python3.12/site-packages"
  echo "import site; site.addsitedir('/venv/lib/python3.12/site-packages')" > "$SP/_overlay.pth"
  PIP_NO_INDEX=1 "$VENV/bin/pip" install -q --no-index --find-links /opt/veriftools/wheels z3-solver crosshair-tool >/dev/null
  "$VENV/bin/python" -c "import z3, crosshair, qce_circuit, stim"
  touch "$STAMP"
) 9>"$HERE/.venv.lock"
