#!/bin/bash
# usage: bin/with_patch.sh <patch.diff> <ID> [<ID>...]   -- applies the patch to /repo, runs the quick checks, reverts.
P="$1"; shift
cd /repo && git apply "$P" || { echo "patch does not apply"; exit 2; }
trap 'git -C /repo checkout -- . ' EXIT
cd /verif
for id in "$@"; do
  ./check "$id" --no-evidence 2>&1 | cut -c1-260 | head -${LINES_MAX:-4}
  echo "exit=${PIPESTATUS[0]}"
done
