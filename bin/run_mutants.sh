#!/bin/bash
# usage: bin/run_mutants.sh [mNN ...]   -- runs, for each hand-written mutant in /verif/mutants/index.tsv, the quick check(s) named there
# against a scratch worktree of /repo HEAD with the mutant applied (PYTHONPATH override; /repo itself is not touched).
# Output: one line per (mutant, check): caught (exit 1 + VIOLATION) / MISSED (exit 0) / error (exit 3) / n/a (diff no longer applies).
cd /verif
sel="$*"
while IFS=$'\t' read -r m ids what; do
  [ -n "$sel" ] && ! echo " $sel " | grep -q " $m " && continue
  WT=$(mktemp -d /tmp/mut.XXXXXX)
  git -C /repo worktree add -q --detach "$WT" HEAD || exit 2
  if ! git -C "$WT" apply "/verif/mutants/$m.diff" 2>/dev/null; then
    echo "$m n/a (diff does not apply to HEAD)  -- $what"
  else
    for id in $ids; do
      PYTHONPATH="$WT/src" ./check "$id" --no-evidence >"$WT.out" 2>&1; rc=$?
      v=$(grep -c '^VIOLATION' "$WT.out")
      case $rc in 1) r=caught;; 0) r=MISSED;; *) r="error($rc)";; esac
      echo "$m $id $r violations=$v  -- $what"
      rm -f "$WT.out"
    done
  fi
  git -C /repo worktree remove --force "$WT" >/dev/null 2>&1; rm -rf "$WT"
done < mutants/index.tsv
