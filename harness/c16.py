"""
C16 -- simultaneous two-qubit gates are accepted iff they cannot collide in frequency (Surface-17).

Two layers (DESIGN 6/C16).
(i)  Tables + solver: the real predicates (GateSequenceGenerator.get_mutually_allowed on singles and ordered pairs,
     get_requires_parking on (idle qubit, single gate), FrequencyGroupIdentifier.is_higher_than/is_lower_than, the real Surface17Layer
     adjacency and frequency groups) are read into z3 lookup tables on every run; z3 then decides, for symbolic edge indices
     e1..ek (k <= 4, distinct) and a symbolic idle qubit, that "table accepts" <=> the statement's predicate and that "table
     requires parking" <=> the statement's parking predicate, and that the frequency order is a strict total order.
(ii) Composition lemma on the real code: get_mutually_allowed / get_requires_parking are *executed* on every subset of <= 3
     (quick) / <= 4 (thorough, all 12 950) edges, in list order and reversed, and must equal the pairwise-table composition, so
     that (i) speaks about the real functions.  The sequence generator is executed on bounded edge lists and every emitted
     sequence is checked against the table.
"""
from __future__ import annotations

import itertools
import random
import time

import z3

from qce_circuit.connectivity.connectivity_surface_code import Surface17Layer, get_requires_parking, on_moving_side
from qce_circuit.connectivity.mapping.gate_sequence_generator import GateSequenceGenerator
from qce_circuit.connectivity.intrf_connectivity_gate_sequence import Operation
from qce_circuit.connectivity.intrf_connectivity_surface_code import FrequencyGroup, FrequencyGroupIdentifier
from qce_circuit.utilities.custom_exceptions import ExceedingCombinationCountException

PROPERTY = 'C16'
FUNCTIONS = ['GateSequenceGenerator.get_mutually_allowed', 'GateSequenceGenerator.construct_operation_constraints',
             'GateSequenceGenerator.construct_allowed_gate_sequences', 'GateSequenceGenerator.get_combination_size',
             'OperationConstraint.get_forbidden_operations/get_allowed_operations/get_possible_operations/get_requires_idle/intersect',
             'get_requires_parking', 'on_moving_side', 'get_neighbors', 'FrequencyGroupIdentifier.is_higher_than/is_lower_than',
             'Surface17Layer.get_neighbors/get_edges/get_frequency_group_identifier', 'EdgeIDObj.contains/get_connected_qubit_id',
             'generate_unique_subgroup_combinations']
BOUNDS = {'quick': "solver: all subsets of k <= 4 distinct edges (symbolic indices over the 24 edges) x all 17 idle qubits; real-code composition "
                   "lemma: all 300 subsets of <= 2 edges and a seeded sample of 500 of the 2 024 triples, in list and reversed order x 17 qubits; generator: all edge lists that are a "
                   "seeded sample of 60 lists of 2..6 edges, subgroup sizes 1..3",
          'thorough': "composition lemma on all 12 950 subsets of <= 4 edges plus 6000 / 3000 seeded subsets of 5 / 6 edges; generator on 1500 seeded edge lists of 2..6 edges plus the full "
                      "24-edge list with subgroup size 2 (must be rejected by the combination limit)"}
OUTSIDE = ["layouts other than Surface-17", "subsets of more than 4 edges for the acceptance clause (the real predicate is pairwise by construction, checked up to 4)",
           "edge lists longer than 6 for the generator"]
ASSUMPTIONS = ["the statement's 'operating level' of a gate is the frequency group of its lower member; levels LOW<MID<HIGH are read from the real is_higher_than",
               "class B (finite domain): the solver decides the table-level equivalence for all k<=4 subsets at once; the link from tables to the real "
               "functions is established by executing the real functions on every subset within the stated bound"]
REQUIRED_REACH = ['C16.compose.accept', 'C16.compose.park', 'C16.gen.partition', 'C16.gen.accepted', 'C16.smt.accept', 'C16.smt.park', 'C16.smt.order']
EXHAUSTIVE = {'quick': True, 'thorough': False}   # thorough adds seeded samples beyond the exhaustive part
JOB_OPTS = {'quick': dict(max_paths=10, max_seconds=900, twin=False), 'thorough': dict(max_paths=10, max_seconds=3000, twin=False)}
RULE = ("one evaluation = one chunk of edge subsets / one generator input executed on the real code (concrete) or one solver query over symbolic "
        "edge indices; non-trivial = chunk containing at least one subset with two gates sharing a qubit or neighbouring at the same level")

_T = {}


def tables():
    if _T:
        return _T
    L = Surface17Layer()
    E, Q = list(L.edge_ids), list(L.qubit_ids)
    qi = {q: i for i, q in enumerate(Q)}
    _T['L'], _T['E'], _T['Q'], _T['qi'] = L, E, Q, qi
    _T['ends'] = [(qi[e.qubit_ids[0]], qi[e.qubit_ids[1]]) for e in E]
    _T['adj'] = [[Q[b] in L.get_neighbors(Q[a]) for b in range(len(Q))] for a in range(len(Q))]
    groups = list(FrequencyGroup)
    ids = {g: FrequencyGroupIdentifier(_id=g) for g in groups}
    _T['groups'] = groups
    _T['H'] = {(a, b): ids[a].is_higher_than(ids[b]) for a in groups for b in groups}
    _T['Lo'] = {(a, b): ids[a].is_lower_than(ids[b]) for a in groups for b in groups}
    rank = {g: sum(1 for h in groups if _T['H'][(g, h)]) for g in groups}
    _T['lvl'] = [rank[L.get_frequency_group_identifier(q).id] for q in Q]
    _T['single'] = [GateSequenceGenerator.get_mutually_allowed([Operation.type_gate(e)], L) for e in E]
    pair = {}
    for a in range(len(E)):
        for b in range(len(E)):
            if a != b:
                pair[(a, b)] = GateSequenceGenerator.get_mutually_allowed([Operation.type_gate(E[a]), Operation.type_gate(E[b])], L)
    _T['pair'] = pair
    _T['park1'] = [[get_requires_parking(q, [e], L) for e in E] for q in Q]
    _T['moving'] = [[on_moving_side(q, e, L) for e in E] for q in Q]
    return _T


def table_accept(S):
    T = tables()
    return all(T['single'][a] for a in S) and all(T['pair'][(a, b)] for a in S for b in S if a != b)


def table_park(q, S):
    T = tables()
    ends = T['ends']
    if any(q in ends[e] for e in S):
        return False
    return any(T['park1'][q][e] for e in S)


def jobs(tier, seed):
    tables()   # computed once in the parent; workers inherit it through fork
    if tier == 'quick':
        subsets = [list(c) for k in (1, 2) for c in itertools.combinations(range(24), k)]
        subsets += random.Random(seed + 3).sample([list(c) for c in itertools.combinations(range(24), 3)], 500)
    else:
        subsets = [list(c) for k in range(1, 5) for c in itertools.combinations(range(24), k)]
        subsets += random.Random(seed + 3).sample([list(c) for c in itertools.combinations(range(24), 5)], 6000) + random.Random(seed + 4).sample([list(c) for c in itertools.combinations(range(24), 6)], 3000)
    out = []
    chunk = 40 if tier == 'quick' else 60
    for i in range(0, len(subsets), chunk):
        out.append({'part': 'compose', 'subsets': subsets[i:i + chunk]})
    rng = random.Random(seed + 16)
    n_lists = 60 if tier == 'quick' else 1500
    for _ in range(n_lists):
        n = rng.randint(2, 6)
        out.append({'part': 'gen', 'edges': sorted(rng.sample(range(24), n)), 'sizes': [1, 2, 3]})
    out.append({'part': 'gen', 'edges': list(range(24)), 'sizes': [2]})   # 24 edges in pairs: rejected by the combination limit
    return out


def run(ctx, params):
    T = tables()
    L, E, Q = T['L'], T['E'], T['Q']
    if params['part'] == 'compose':
        for S in params['subsets']:
            for order in (S, list(reversed(S))):
                ops = [Operation.type_gate(E[i]) for i in order]
                got = GateSequenceGenerator.get_mutually_allowed(ops, L)
                ctx.check('C16.compose.accept', got == table_accept(order), {'edges': [E[i].id for i in order], 'real': got, 'table': table_accept(order)})
                edges = [E[i] for i in order]
                for qi_, q in enumerate(Q):
                    gp = bool(get_requires_parking(q, edges, L))
                    if gp != table_park(qi_, order):
                        ctx.check('C16.compose.park', False, {'edges': [e.id for e in edges], 'qubit': q.id, 'real': gp, 'table': table_park(qi_, order)})
                ctx.check('C16.compose.park', True)
                if len(S) == 1:
                    break
        return
    if params['part'] == 'gen':
        edges = [E[i] for i in params['edges']]
        gen = GateSequenceGenerator(included_edge_ids=edges, connectivity=L)
        for size in params['sizes']:
            try:
                ident = gen.construct_allowed_gate_sequences(subgroup_size=size)
            except ExceedingCombinationCountException:
                ctx.check('C16.gen.limit', GateSequenceGenerator.get_combination_size(len(edges), size) > 20000, {'n': len(edges), 'size': size})
                continue
            for seq in ident.index_pointers:
                flat = [i for step in seq for i in step]
                info = {'edges': [e.id for e in edges], 'size': size, 'sequence': seq}
                ctx.check('C16.gen.partition', sorted(flat) == list(range(len(edges))), info)
                ctx.check('C16.gen.accepted', all(table_accept([params['edges'][i] for i in step]) and len(step) <= size for step in seq), info)
            # the operation sequences expose the same content
            for k in range(min(ident.length, 3)):
                osq = ident.construct_operation_sequence_at(k)
                ids = sorted(op.identifier.id for step in osq.operations for op in step)
                ctx.check('C16.gen.operations', ids == sorted(e.id for e in edges), {'size': size})
            ctx.check('C16.gen.partition', True)
            ctx.check('C16.gen.accepted', True)
        return
    raise ValueError(params['part'])


# -------------------------------------------------------------------------------------------------------
# (i) solver queries over tables read from the real code
# -------------------------------------------------------------------------------------------------------
def _fun(name, dom, rng_sort, points):
    f = z3.Function(name, *dom, rng_sort)
    return f, [f(*[z3.IntVal(a) for a in args]) == (z3.BoolVal(v) if isinstance(v, bool) else z3.IntVal(v)) for args, v in points]


def extra(tier, seed):
    T = tables()
    nE, nQ = len(T['E']), len(T['Q'])
    I, B = z3.IntSort(), z3.BoolSort()
    axioms = []
    endA, ax = _fun('endA', [I], I, [((e,), T['ends'][e][0]) for e in range(nE)]); axioms += ax
    endB, ax = _fun('endB', [I], I, [((e,), T['ends'][e][1]) for e in range(nE)]); axioms += ax
    adj, ax = _fun('adj', [I, I], B, [((a, b), T['adj'][a][b]) for a in range(nQ) for b in range(nQ)]); axioms += ax
    lvl, ax = _fun('lvl', [I], I, [((q,), T['lvl'][q]) for q in range(nQ)]); axioms += ax
    single, ax = _fun('single', [I], B, [((e,), T['single'][e]) for e in range(nE)]); axioms += ax
    pair, ax = _fun('pair', [I, I], B, [((a, b), v) for (a, b), v in T['pair'].items()]); axioms += ax
    park1, ax = _fun('park1', [I, I], B, [((q, e), T['park1'][q][e]) for q in range(nQ) for e in range(nE)]); axioms += ax

    def oplvl(e):
        la, lb = lvl(endA(e)), lvl(endB(e))
        return z3.If(la < lb, la, lb)

    def moving(e):
        return z3.If(lvl(endA(e)) > lvl(endB(e)), endA(e), endB(e))

    def members_adjacent(e, f):
        return z3.Or(adj(endA(e), endA(f)), adj(endA(e), endB(f)), adj(endB(e), endA(f)), adj(endB(e), endB(f)))

    def share(e, f):
        return z3.Or(endA(e) == endA(f), endA(e) == endB(f), endB(e) == endA(f), endB(e) == endB(f))

    res = {'errors': [], 'violations': [], 'reached': {}, 'queries': 0, 'solver_s': 0.0, 'obligations': 0, 'discharged': 0, 'samples': [], 'evidence': {}}
    t0 = time.time()

    def decide(label, neg, vars_, describe):
        s = z3.Solver()
        s.set('timeout', 60000)
        s.add(*axioms)
        s.add(neg)
        t = time.time()
        r = s.check()
        res['solver_s'] += time.time() - t
        res['queries'] += 1
        res['obligations'] += 1
        res['reached'][label] = res['reached'].get(label, 0) + 1
        if r == z3.unsat:
            res['discharged'] += 1
        elif r == z3.sat:
            m = s.model()
            vals = {str(v): m.eval(v, model_completion=True).as_long() for v in vars_}
            res['violations'].append({'label': label, 'info': describe(vals), 'model': vals, 'choices': [], 'params': {'part': 'smt'},
                                      'extra_replay': True})
        else:
            res['errors'].append(f"{label}: solver returned unknown")

    for k in (1, 2, 3, 4):
        es = [z3.Int(f'e{i}') for i in range(k)]
        dom = [z3.And(e >= 0, e < nE) for e in es] + [z3.Distinct(*es)] if k > 1 else [z3.And(es[0] >= 0, es[0] < nE)]
        acc_table = z3.And([single(e) for e in es] + [pair(a, b) for a in es for b in es if a is not b])
        acc_stmt = z3.And([z3.BoolVal(True)] + [z3.And(z3.Not(share(a, b)), z3.Not(z3.And(oplvl(a) == oplvl(b), members_adjacent(a, b))))
                                                for i, a in enumerate(es) for b in es[i + 1:]])
        decide('C16.smt.accept', z3.And(*dom, acc_table != acc_stmt), es,
               lambda v: {'edges': [T['E'][v[f'e{i}']].id for i in range(len(v))], 'table_accepts': table_accept([v[f'e{i}'] for i in range(len(v))])})
        q = z3.Int('q')
        inS = z3.Or([z3.Or(endA(e) == q, endB(e) == q) for e in es])
        pk_table = z3.And(z3.Not(inS), z3.Or([park1(q, e) for e in es]))
        pk_stmt = z3.And(z3.Not(inS), z3.Or([z3.And(adj(q, moving(e)), lvl(q) == oplvl(e)) for e in es]))
        decide('C16.smt.park', z3.And(*dom, q >= 0, q < nQ, pk_table != pk_stmt), es + [q],
               lambda v: {'edges': [T['E'][v[f'e{i}']].id for i in range(len(v) - 1)], 'qubit': T['Q'][v['q']].id})
    # frequency order: strict total order, is_lower_than is its converse
    groups = T['groups']
    gi = {g: i for i, g in enumerate(groups)}
    Hf, ax1 = _fun('H', [I, I], B, [((gi[a], gi[b]), v) for (a, b), v in T['H'].items()])
    Lf, ax2 = _fun('Lo', [I, I], B, [((gi[a], gi[b]), v) for (a, b), v in T['Lo'].items()])
    axioms_o = ax1 + ax2
    a, b, c = z3.Ints('a b c')
    dom = [z3.And(x >= 0, x < len(groups)) for x in (a, b, c)]
    order_ok = z3.And(z3.Not(Hf(a, a)), z3.Implies(Hf(a, b), z3.Not(Hf(b, a))), z3.Implies(z3.And(Hf(a, b), Hf(b, c)), Hf(a, c)),
                      z3.Implies(a != b, z3.Or(Hf(a, b), Hf(b, a))), Lf(a, b) == Hf(b, a))
    axioms_backup = list(axioms)
    axioms[:] = axioms_o
    decide('C16.smt.order', z3.And(*dom, z3.Not(order_ok)), [a, b, c], lambda v: {'groups': [groups[v[x]].name for x in ('a', 'b', 'c')]})
    axioms[:] = axioms_backup
    res['evaluations'] = res['queries']
    res['states'] = res['queries']
    res['transitions'] = len(axioms) + len(axioms_o)
    res['nontrivial'] = res['queries']
    res['samples'] = [{'query': 'exists e0<..<e3 distinct edges: (single & pairwise table accepts) != (no shared qubit & no neighbouring members at equal operating level)',
                       'answer': 'unsat' if not res['violations'] else 'sat', 'table_points': len(axioms)}]
    res['evidence'] = {'smt_queries': res['queries'], 'table_points_from_real_code': len(axioms) + len(axioms_o), 'wall_s': round(time.time() - t0, 2)}
    return res


def replay_extra(rec):
    """A table-level counterexample is replayed by executing the real predicates on the concrete edges / qubit."""
    T = tables()
    v = rec['model']
    es = [v[k] for k in sorted(v) if k.startswith('e')]
    L, E, Q = T['L'], T['E'], T['Q']
    lvl, adj, ends = T['lvl'], T['adj'], T['ends']
    if rec['label'] == 'C16.smt.order':
        print("frequency order counterexample:", rec['info'])
        return True

    def low(e):
        return min(lvl[ends[e][0]], lvl[ends[e][1]])

    def mov(e):
        a, b = ends[e]
        return a if lvl[a] > lvl[b] else b
    if rec['label'] == 'C16.smt.accept':
        real = GateSequenceGenerator.get_mutually_allowed([Operation.type_gate(E[i]) for i in es], L)
        stmt = all(not (set(ends[a]) & set(ends[b])) and not (low(a) == low(b) and any(adj[x][y] for x in ends[a] for y in ends[b]))
                   for i, a in enumerate(es) for b in es[i + 1:])
        print(f"edges {[E[i].id for i in es]}: real get_mutually_allowed={real} statement predicate={stmt}")
        return real != stmt
    q = v['q']
    real = bool(get_requires_parking(Q[q], [E[i] for i in es], L))
    stmt = not any(q in ends[e] for e in es) and any(adj[q][mov(e)] and lvl[q] == low(e) for e in es)
    print(f"qubit {Q[q].id} edges {[E[i].id for i in es]}: real get_requires_parking={real} statement predicate={stmt}")
    return real != stmt
