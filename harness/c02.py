"""
C02 -- nothing lost, nothing duplicated: the operation listing is complete, causal and stable.

Real code executed symbolically: DeclarativeCircuit.add/add_operation/add_sub_circuit/operations/get_last_entry,
CircuitGraphBranch.add_to_graph/append_pointers_to/get_leaf_at_any/get_corresponding_node, GraphBranch.update_point_leafs_to_endpoint/
_update_branch_iterator, unique_in_order, CircuitCompositeOperation.decomposed_operations/copy, RelationLink.copy, all operation copy()s used.
Durations are symbolic (two operations that differ only by an *equal* duration must not be merged: with constant hashes every
dict/set lookup on operations is decided by the solver, so the `d_i = d_j` branch is explored); relation links are optionally one
shared object per (type, reference), as the library's own constructors do.
"""
from __future__ import annotations

import random

from symx.core import s_and, s_or
from . import common as cm
from . import gen
from qce_circuit.structure.intrf_circuit_operation_composite import CircuitCompositeOperation

PROPERTY = 'C02'
FUNCTIONS = ['DeclarativeCircuit.add_operation/add_sub_circuit/operations/get_last_entry', 'CircuitGraphBranch.add_to_graph',
             'CircuitGraphBranch.append_pointers_to', 'CircuitGraphBranch.get_leaf_at_any', 'CircuitGraphBranch.get_corresponding_node',
             'GraphBranch.update_point_leafs_to_endpoint', 'GraphBranch._update_branch_iterator', 'GraphNode.point_towards/release_pointer',
             'unique_in_order', 'CircuitCompositeOperation.decomposed_operations', 'CircuitCompositeOperation.copy', 'RelationLink.copy',
             'Wait.copy / Rx180.copy / CPhase.copy / DispersiveMeasure.copy / Barrier.copy']
BOUNDS = {'quick': "every relation graph on <= 3 steps and a seeded sample of 1500 on 4 steps over {Wait q0 ALL, Wait q0 ALL (duplicate kind), Wait q1 MW, Rx180 q0, "
                   "CPhase q0 q1, Barrier q0 q1}, own and shared link objects; nested: one sub-circuit of <= 2 steps in 2..3 outer steps (sample 1500)",
          'thorough': "all graphs on <= 4 steps over 4 kinds, samples of 5- and 6-step programs, nested depth 2, 1500 seeded random shapes <= 10 leaves"}
OUTSIDE = ["graph depth beyond the shape bound (MAX_GRAPH_DEPTH = 5000 is never approached)", "relations to operations of a different circuit",
           "repetition counts > 1 (C06)"]
ASSUMPTIONS = ["hash(Sym) constant / == decided by the solver", "memo caches start empty"]
REQUIRED_REACH = ['C02.count', 'C02.once', 'C02.kind', 'C02.duration', 'C02.causal', 'C02.stable', 'C02.late_add', 'C02.last_entry', 'C02.returned', 'C02.duration.after_registry_change']
EXHAUSTIVE = {'quick': False, 'thorough': False}
JOB_OPTS = {'quick': dict(max_paths=3000, max_seconds=300), 'thorough': dict(max_paths=20000, max_seconds=900)}
TRUNCATION_OK = {'quick': 4, 'thorough': 20}   # sampled tier: this many random jobs may exhaust their path/time budget (listed as truncated in the evidence)

ALPHA = [['W', 0, 'ALL'], ['W', 0, 'ALL'], ['W', 1, 'MW'], ['G', 'Rx180', [0]], ['G', 'CPhase', [0, 1]], ['B', [0, 1]]]
ALPHA_U = [['W', 0, 'ALL'], ['W', 1, 'MW'], ['G', 'Rx180', [0]], ['B', [0, 1]]]
ALPHA_IN = [['W', 0, 'ALL'], ['W', 1, 'ALL'], ['G', 'Rx180', [0]]]


def jobs(tier, seed):
    out = []
    if tier == 'quick':
        progs = list(gen.programs_upto(2, ALPHA_U)) + gen.sample(gen.flat_programs(3, ALPHA), 1200, seed) + gen.sample(gen.flat_programs(4, ALPHA_U), 1500, seed + 1)
        inner = list(gen.programs_upto(2, ALPHA_IN))
        progs += gen.sample(gen.nested_programs(ALPHA_U[:2], inner, 2), 700, seed + 2) + gen.sample(gen.nested_programs(ALPHA_U[:2], inner, 3), 800, seed + 3)
    else:
        progs = list(gen.programs_upto(3, ALPHA_U)) + gen.sample(gen.flat_programs(4, ALPHA_U), 8000, seed) + gen.sample(gen.flat_programs(5, ALPHA_U[:3]), 4000, seed + 1) \
            + gen.sample(gen.flat_programs(6, ALPHA_U[:2]), 3000, seed + 4)
        inner = list(gen.programs_upto(2, ALPHA_IN)) + gen.sample(gen.flat_programs(3, ALPHA_IN), 200, seed)
        progs += gen.sample(gen.nested_programs(ALPHA_U[:2], inner, 2), 3000, seed + 2) + gen.sample(gen.nested_programs(ALPHA_U[:2], inner, 3), 4000, seed + 3)
        rng = random.Random(seed + 6)
        for _ in range(1500):
            p = gen.random_program(rng, ALPHA, 4, 2, reps=(1,))
            if gen.count_leaves(p) <= 10:
                progs.append(p)
    for i, p in enumerate(progs):
        out.append({'prog': p, 'share': bool(i % 2)})
    # nested blocks of 3 steps in which two operations of one kind can hang on one shared link object (value-equal when their durations
    # are equal): they are distinct operations and both must stay listed after the block was copied into the parent
    inner3 = list(gen.flat_programs(3, [['W', 0, 'ALL'], ['W', 1, 'ALL']]))
    nested3 = list(gen.nested_programs(ALPHA_U[:1], inner3, 1)) + gen.sample(gen.nested_programs(ALPHA_U[:2], inner3, 2, types='F'), 150 if tier == 'quick' else 1500, seed + 8)
    out += [{'prog': p, 'share': True} for p in nested3]
    # registry-driven durations inside nested blocks: the listed (copied) operations keep following the registry
    reg_in = list(gen.programs_upto(2, [['R', 0, 'ALL'], ['W', 0, 'ALL'], ['R', 1, 'ALL']], types='FS'))
    out += [{'prog': p, 'share': False, 'setreg': True} for p in gen.sample(gen.nested_programs(ALPHA_U[:2], reg_in, 2, types='F'), 200 if tier == 'quick' else 2000, seed + 9)]
    return out


def _index_of(ops, obj):
    return [i for i, o in enumerate(ops) if o is obj]


def run(ctx, params):
    g = cm.Globals(ctx)
    with g.override():
        built = cm.build(ctx, params['prog'], share_links=params.get('share', False), lost_label='C02.copied_block_complete')
        circuit = built.circuit
        # last entry before listing
        if built.nodes:
            ctx.check('C02.last_entry', circuit.get_last_entry() is built.nodes[-1].obj, {'n': len(built.nodes)})
        ops = circuit.operations
        leaves = built.leaves()
        ctx.observe('n', len(ops))
        ctx.check('C02.count', len(ops) == len(leaves), {'listed': len(ops), 'added': len(leaves), 'classes': [type(o).__name__ for o in ops]})
        ctx.check('C02.no_composite', not any(isinstance(o, CircuitCompositeOperation) for o in ops))
        pos = {}
        for n in leaves:
            idx = _index_of(ops, n.obj)
            pos[n.label()] = idx[0] if idx else None
            ctx.check('C02.once', len(idx) == 1, {'step': n.label(), 'occurrences': len(idx), 'kind': n.kind})
            o = n.obj
            k = n.kind
            cls_ok = type(o).__name__ == {'W': 'Wait', 'R': 'Wait', 'M': 'DispersiveMeasure', 'B': 'Barrier'}.get(k[0], k[1] if k[0] in 'GVT' else None)
            if k[0] in ('W', 'R'):
                q_ok = o.qubit_index == k[1] and o.qubit_channel == cm.CH[k[2]]
            elif k[0] == 'G':
                q_ok = [ci.id for ci in o.channel_identifiers][::len(cm.GLOBAL_OF[k[1]][1])] == list(k[2])
            elif k[0] == 'B':
                q_ok = list(o.qubit_indices) == list(k[1])
            elif k[0] == 'M':
                q_ok = o.qubit_index == k[1] and o.acquisition_tag == k[2]
            else:
                q_ok = True
            ctx.check('C02.kind', cls_ok and q_ok, {'step': n.label(), 'kind': k, 'listed_as': type(o).__name__})
            if n.dur is not None:
                ctx.check('C02.duration', o.duration == n.dur, {'step': n.label(), 'listed_duration': o.duration, 'added_duration': n.dur})
            elif k[0] == 'G':
                ctx.check('C02.duration', o.duration == g[cm.GLOBAL_OF[k[1]][0]], {'step': n.label(), 'listed_duration': o.duration})
        if params.get('setreg'):
            # the registry values change after the build: every listed operation whose step reads the registry reports the new value
            for i, key in enumerate(built.reg_keys):
                v = ctx.real(f'v1_{i}', lo=0)
                built.registry.set_registry_at(key, v)
                for n in leaves:
                    if n.kind[0] == 'R' and ('key_' + n.label().replace('.', '_')) == key:
                        n.dur = v
            for n in leaves:
                if n.kind[0] == 'R':
                    idx = _index_of(ops, n.obj)
                    if idx:
                        ctx.check('C02.duration.after_registry_change', ops[idx[0]].duration == n.dur, {'step': n.label(), 'listed_duration': ops[idx[0]].duration, 'registry_value': n.dur})
        top_leaf = [n for n in built.nodes if not n.is_sub]
        ctx.check('C02.returned', all(pos.get(n.label()) is not None for n in top_leaf), {})
        # causal: everything a step refers to (explicitly or by implicit placement) is listed before it

        def causal(nodes):
            depth = cm.relation_depths(nodes)
            for i, n in enumerate(nodes):
                if n.rel is not None:
                    refs = [n.rel[1]]
                else:
                    p = cm.implicit_predecessors(nodes, i, depth)
                    refs = p if len(p) == 1 else []
                mine = [pos[x.label()] for x in n.leaves()]
                for j in refs:
                    theirs = [pos[x.label()] for x in nodes[j].leaves()]
                    if None in mine or None in theirs or not mine or not theirs:
                        continue
                    ctx.check('C02.causal', max(theirs) < min(mine), {'step': n.label(), 'refers_to': nodes[j].label(), 'positions': mine, 'ref_positions': theirs})
                if n.is_sub:
                    causal(n.children)
        causal(built.nodes)
        # also against the links the listed operations carry
        for k_, o in enumerate(ops):
            ref = o.relation_link.reference_node
            if ref is not None and not isinstance(ref, CircuitCompositeOperation):
                ri = _index_of(ops, ref)
                ctx.check('C02.causal_link', len(ri) == 1 and ri[0] < k_, {'index': k_, 'ref_index': ri})
        ops2 = circuit.operations
        ctx.check('C02.stable', len(ops2) == len(ops) and all(a is b for a, b in zip(ops, ops2)), {})
        # times are still readable (no exception) and stable across the two listings
        t1 = [o.start_time for o in ops]
        ops3 = circuit.operations
        t2 = [o.start_time for o in ops3]
        ctx.check('C02.stable_times', len(t1) == len(t2) and s_and(*[a == b for a, b in zip(t1, t2)]), {'first': t1, 'second': t2})
        # the listing follows the circuit: an operation added afterwards -- to the circuit or to a nested block through the handle
        # add() returned for it -- is listed (exactly once), everything listed before is still listed
        from qce_circuit.structure import circuit_operations as co_
        from qce_circuit.structure.registry_duration import FixedDurationStrategy as FDS
        subs_ = [n for n in built.all_nodes if n.is_sub]
        target = subs_[0].obj if subs_ and params.get('share') else circuit
        late = co_.Wait(7, duration_strategy=FDS(ctx.real('d_late', lo=0)))
        target.add(late)
        ops_late = circuit.operations
        ctx.check('C02.late_add', sum(1 for o in ops_late if o is late) == 1 and len(ops_late) == len(ops) + 1 and all(any(o is p for p in ops_late) for o in ops),
                  {'added_to': 'nested block' if target is not circuit else 'circuit', 'listed': len(ops_late), 'expected': len(ops) + 1})
