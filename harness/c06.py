"""
C06 -- applying repetition modifiers unrolls n back-to-back copies, once.

Real code executed symbolically: DeclarativeCircuit.apply_modifiers, CircuitCompositeOperation.apply_modifiers_to_self/repeat/extend/copy,
MultiRelationLink.reference_node/get_start_time/copy, FixedRepetitionStrategy/RegistryRepetitionStrategy, and the scheduling
stack.  Durations are symbolic reals >= 0; repetition counts are enumerated (fixed and registry-provided) at every nesting level.

Oracle: counts per program step = product of the enclosing counts; non-repeated operations stay the same objects; all counts 1
afterwards; second apply_modifiers() leaves listing (identities) and schedule (terms) unchanged; copy k of a block starts at the
maximum end over the relation leaves of copy k-1 (computed from the program, as a z3 If-max); n*T clause under its guard; for
library circuits the unrolled listing is the n-fold concatenation of the block's listing.
"""
from __future__ import annotations

import random

from symx.core import s_and, s_or, s_implies
from . import common as cm
from . import gen
from qce_circuit.language.declarative_circuit import DeclarativeCircuit
from qce_circuit.structure.intrf_circuit_operation import MultiRelationLink, RelationLink
from qce_circuit.structure.intrf_circuit_operation_composite import CircuitCompositeOperation
from qce_circuit.structure.registry_repetition import FixedRepetitionStrategy, RegistryRepetitionStrategy, RepetitionRegistry
from qce_circuit.structure.registry_duration import FixedDurationStrategy

PROPERTY = 'C06'
FUNCTIONS = ['DeclarativeCircuit.apply_modifiers', 'CircuitCompositeOperation.apply_modifiers_to_self', 'CircuitCompositeOperation.repeat',
             'CircuitCompositeOperation.extend', 'CircuitCompositeOperation.copy', 'MultiRelationLink.reference_node', 'MultiRelationLink.get_start_time',
             'MultiRelationLink.copy', 'RelationLink.copy', 'FixedRepetitionStrategy.get_repetition_number', 'RegistryRepetitionStrategy.get_repetition_number',
             'CircuitCompositeOperation.nr_of_repetitions', 'CircuitGraphBranch.add_to_graph', 'GraphBranch.leaf_nodes',
             'construct_repetition_code_circuit / construct_repetition_code_circuit_simplified (listing clause)']
BOUNDS = {'quick': "programs of 1..3 outer steps with one repeated sub-circuit (count 1..3, fixed or registry-provided) of <= 3 inner Wait steps with every "
                   "relation option (seeded sample of 1500), one level of a repeated sub-circuit inside a repeated sub-circuit (counts 1..2, sample of 300), "
                   "repeated top-level circuit; library circuits d in {2,3}, cycles 0..5 for the concatenation clause",
          'thorough': "counts 1..4, inner programs <= 4 steps, nesting depth 3, 6000 sampled shapes; library circuits d<=4, cycles 0..7"}
OUTSIDE = ["repetition counts < 1", "DynamicRepetitionStrategy callables", "IEEE rounding off the dyadic grid",
           "copy membership of an unrolled operation is read from the links it carries (walk to the first MultiRelationLink)"]
ASSUMPTIONS = ["memo caches start empty; history = build -> read block duration -> apply_modifiers -> list -> read times -> apply_modifiers again",
               "hash(Sym) constant / == decided by the solver"]
REQUIRED_REACH = ['C06.count', 'C06.untouched', 'C06.reset', 'C06.idempotent.listing', 'C06.idempotent.schedule', 'C06.chain', 'C06.nT', 'C06.library.concat']
EXHAUSTIVE = {'quick': False, 'thorough': False}
JOB_OPTS = {'quick': dict(max_paths=6000, max_seconds=500), 'thorough': dict(max_paths=40000, max_seconds=1500)}

W_OUT = [['W', 0, 'ALL'], ['W', 1, 'ALL']]
W_IN = [['W', 0, 'ALL'], ['W', 1, 'ALL'], ['W', 0, 'MW']]


def jobs(tier, seed):
    rng = random.Random(seed + 60)
    out = []
    reps = (1, 2, 3) if tier == 'quick' else (1, 2, 3, 4)
    nin = 3 if tier == 'quick' else 4
    inner = list(gen.programs_upto(2, W_IN)) + gen.sample(gen.flat_programs(3, W_IN), 400, seed) + (gen.sample(gen.flat_programs(4, W_IN[:2]), 400, seed) if nin > 3 else [])
    progs = []
    for n_outer in (1, 2, 3):
        progs += gen.sample(gen.nested_programs(W_OUT, inner, n_outer, types='FS', reps=reps), 500 if tier == 'quick' else 1500, seed + n_outer)
    for p in progs:
        out.append({'prog': p, 'reg': rng.random() < 0.3})
    # nested repetition
    small = list(gen.programs_upto(2, W_IN[:2]))
    for _ in range(300 if tier == 'quick' else 1500):
        a = dict(rng.choice(small)); a['rep'] = rng.choice((1, 2))
        b_steps = [{'k': rng.choice(W_IN[:2]), 'rel': None}, {'k': ['S', a], 'rel': rng.choice([None, ['F', 0], ['S', 0]])}]
        if rng.random() < 0.5:
            b_steps.append({'k': rng.choice(W_IN[:2]), 'rel': rng.choice([None, ['F', 1], ['F', 0]])})
        b = {'steps': b_steps, 'rep': rng.choice((1, 2, 3) if tier != 'quick' else (1, 2))}
        outer = [{'k': ['S', b], 'rel': None}]
        if rng.random() < 0.5:
            outer.insert(0, {'k': rng.choice(W_OUT), 'rel': None})
        if rng.random() < 0.5:
            outer.append({'k': rng.choice(W_OUT), 'rel': None})
        out.append({'prog': {'steps': outer}, 'reg': False})
    # repeated top-level circuit
    for p in gen.sample(inner, 120 if tier == 'quick' else 400, seed + 9):
        for r in reps[1:]:
            q = dict(p); q['rep'] = r
            out.append({'prog': q, 'reg': False, 'top': True})
    dmax, cmax = (3, 5) if tier == 'quick' else (4, 7)
    for d in range(2, dmax + 1):
        for cycles in range(0, cmax + 1):
            out.append({'library': 'full', 'd': d, 'cycles': cycles})
            if cycles >= 1:   # the simplified constructor uses qec_cycles itself as repetition count; counts < 1 are outside the quantifier
                out.append({'library': 'simplified', 'd': d, 'cycles': cycles})
    return out


def product_of_reps(node):
    p = 1
    n = node.parent
    while n is not None:
        p *= n.rep
        n = n.parent
    return p


def copy_groups(ops):
    """Group unrolled operations by the copy they belong to: walk the links up to the first MultiRelationLink (or to a link without reference)."""
    pos = {id(o): i for i, o in enumerate(ops)}
    group = {}
    for o in ops:
        cur, hops = o, 0
        while True:
            link = cur.relation_link
            if isinstance(link, MultiRelationLink):
                key = id(link)
                break
            ref = link.reference_node
            if ref is None or id(ref) not in pos:
                key = ('root', id(link) if ref is None else id(ref))
                break
            cur = ref
            hops += 1
            if hops > 10000:
                raise RuntimeError("relation cycle")
        group[id(o)] = key
    return group


def sig(o):
    qs = tuple(getattr(o, a) for a in ('qubit_index', 'control_qubit_index', 'target_qubit_index') if hasattr(o, a))
    if hasattr(o, 'qubit_indices'):
        qs = tuple(o.qubit_indices)
    return (type(o).__name__, qs, getattr(o, 'acquisition_tag', None))


def run_library(ctx, params):
    from qce_circuit.library.repetition_code.circuit_constructors import construct_repetition_code_circuit, construct_repetition_code_circuit_simplified
    from qce_circuit.language import InitialStateContainer, InitialStateEnum
    init = InitialStateContainer.from_ordered_list([InitialStateEnum.ZERO] * params['d'])
    fn = construct_repetition_code_circuit if params['library'] == 'full' else construct_repetition_code_circuit_simplified
    c = fn(qec_cycles=params['cycles'], initial_state=init)

    def expected(comp):
        out = []
        for child in cm.composite_children(comp):
            if isinstance(child, CircuitCompositeOperation):
                out.extend(expected(child) * child.nr_of_repetitions)
            else:
                out.append(sig(child))
        return out
    top = c.circuit_structure
    want = expected(top) * top.nr_of_repetitions
    blocks = [(ch.nr_of_repetitions, len(expected(ch))) for ch in c.composite_operations if ch.nr_of_repetitions > 1]
    u = c.apply_modifiers()
    got = [sig(o) for o in u.operations]
    first_diff = next((i for i, (a, b) in enumerate(zip(got, want)) if a != b), None)
    import collections
    no_shift = lambda xs: [x for x in xs if x[0] != 'CoordinateShiftOperation']  # noqa: E731
    ctx.check('C06.library.concat', got == want, {'library': params['library'], 'd': params['d'], 'cycles': params['cycles'], 'n_listed': len(got), 'n_expected': len(want),
                                                  'first_difference': first_diff, 'repeated_blocks': blocks,
                                                  'same_multiset': collections.Counter(got) == collections.Counter(want),
                                                  'equal_without_coordinate_shift': no_shift(got) == no_shift(want)})
    ctx.check('C06.reset', all(x.nr_of_repetitions == 1 for x in u.composite_operations) and u.circuit_structure.nr_of_repetitions == 1, {})


def run(ctx, params):
    if 'library' in params:
        return run_library(ctx, params)
    g = cm.Globals(ctx)
    with g.override():
        prog = params['prog']
        built = cm.Built()
        top_rep = prog.get('rep', 1)
        registry = RepetitionRegistry()
        circuit, nodes = cm.build_circuit(ctx, prog, built)
        built.circuit, built.nodes = circuit, nodes
        if params.get('reg'):
            # registry-provided counts: re-point every repeated sub-circuit at a registry entry carrying the same count
            for n in built.all_nodes:
                if n.is_sub and n.rep > 1:
                    key = f"rep{n.label()}"
                    registry.set_registry_at(key, n.rep)
                    n.obj.repetition_strategy = RegistryRepetitionStrategy(registry=registry, registry_key=key)
        leaves = built.leaves()
        # single-copy facts, read before unrolling
        subs = [n for n in built.all_nodes if n.is_sub and n.rep > 1 and n.parent is None]
        T = {n.label(): n.obj.duration for n in subs}
        untouched = [n for n in built.nodes if not n.is_sub]
        unrolled = circuit.apply_modifiers()
        ops = unrolled.operations
        ctx.observe('n', len(ops))
        # ---- counts -----------------------------------------------------------------------------------------
        total = 0
        for n in leaves:
            want = product_of_reps(n) * top_rep
            total += want
            strat = n.obj.duration_strategy
            got = sum(1 for o in ops if getattr(o, 'duration_strategy', None) is strat)
            ctx.check('C06.count', got == want, {'step': n.label(), 'listed': got, 'expected': want})
        ctx.check('C06.count', len(ops) == total, {'listed_total': len(ops), 'expected_total': total})
        if top_rep == 1:
            ctx.check('C06.untouched', all(any(o is n.obj for o in ops) for n in untouched), {'steps': [n.label() for n in untouched]})
        else:
            ctx.check('C06.untouched', True)
        comps = unrolled.composite_operations
        ctx.check('C06.reset', all(c.nr_of_repetitions == 1 for c in comps) and unrolled.circuit_structure.nr_of_repetitions == 1,
                  {'counts': [c.nr_of_repetitions for c in comps]})
        times = [(o.start_time, o.end_time) for o in ops]
        for k, (s, e) in enumerate(times):
            ctx.observe(f't{k}', [s, e])
        # ---- chain: copy k starts at the max end over the relation leaves of copy k-1 -----------------------------------
        for sub in subs:
            steps = sub.children
            if any(c.is_sub for c in steps):
                continue
            depth = cm.relation_depths(steps)
            referred = set()
            for i, st in enumerate(steps):
                if st.rel is not None:
                    referred.add(st.rel[1])
                else:
                    for j in cm.implicit_predecessors(steps, i, depth):
                        referred.add(j)
            leaf_steps = [i for i in range(len(steps)) if i not in referred]
            first_steps = [i for i, st in enumerate(steps) if st.rel is None and not cm.implicit_predecessors(steps, i, depth)]
            strat_of = {id(st.obj.duration_strategy): i for i, st in enumerate(steps)}
            # copy k of step i = the k-th occurrence of step i in the listing: copy k hangs below a leaf of copy k-1, so its relation
            # depth (and therefore its breadth-first position) is larger than that of the same step in copy k-1
            occ = {i: [o for o in ops if getattr(o, 'duration_strategy', None) is st.obj.duration_strategy] for i, st in enumerate(steps)}
            if not all(len(v) == sub.rep for v in occ.values()):
                continue   # reported by C06.count
            copies = [{i: [occ[i][k]] for i in range(len(steps))} for k in range(sub.rep)]
            for k in range(1, len(copies)):
                prev_leaf_end = cm.smax([copies[k - 1][i][0].end_time for i in leaf_steps])
                for i in first_steps:
                    s = copies[k][i][0].start_time
                    ctx.check('C06.chain', s == prev_leaf_end, {'block': sub.label(), 'copy': k, 'step': i, 'start': s, 'expected': prev_leaf_end,
                                                               'leaf_steps': leaf_steps, 'prev_ends': [copies[k - 1][i2][0].end_time for i2 in leaf_steps]})
            # n*T: if the last-ending operation of one copy is a relation leaf, the block occupies n*T
            all_ops0 = [copies[0][i][0] for i in range(len(steps))]
            span_end = cm.smax([o.end_time for o in all_ops0])
            leaf_end = cm.smax([copies[0][i][0].end_time for i in leaf_steps])
            first_start = cm.smin([o.start_time for o in all_ops0])
            guard = s_and(span_end == leaf_end, *[o.start_time >= copies[0][first_steps[0]][0].start_time for o in all_ops0]) if first_steps else False
            last_end = cm.smax([o.end_time for c in copies for v in c.values() for o in v])
            occupied = last_end - copies[0][first_steps[0]][0].start_time if first_steps else 0
            ctx.check('C06.nT', s_implies(guard, occupied == sub.rep * T[sub.label()]), {'block': sub.label(), 'n': sub.rep, 'T': T[sub.label()], 'occupied': occupied})
        # ---- idempotence ---------------------------------------------------------------------------------------------------
        again = unrolled.apply_modifiers()
        ops2 = again.operations
        ctx.check('C06.idempotent.listing', len(ops2) == len(ops) and all(a is b for a, b in zip(ops, ops2)), {'first': len(ops), 'second': len(ops2)})
        times2 = [(o.start_time, o.end_time) for o in ops2]
        ctx.check('C06.idempotent.schedule', len(times) == len(times2) and s_and(*[s_and(a[0] == b[0], a[1] == b[1]) for a, b in zip(times, times2)]),
                  {'first': times, 'second': times2})
