"""
C06 -- applying repetition modifiers unrolls n back-to-back copies, once.

Real code executed symbolically: DeclarativeCircuit.apply_modifiers, CircuitCompositeOperation.apply_modifiers_to_self/repeat/extend/copy,
MultiRelationLink.reference_node/get_start_time/copy, FixedRepetitionStrategy/RegistryRepetitionStrategy, and the scheduling
stack.  Durations are symbolic reals >= 0; repetition counts are enumerated (fixed and registry-provided) at every nesting level.

Oracle: counts per program step = product of the enclosing counts; non-repeated operations stay the same objects; all counts 1
afterwards; second apply_modifiers() leaves listing (identities) and schedule (terms) unchanged; copy k of a block starts at the
maximum end over the relation leaves of copy k-1 (computed from the program, as a z3 If-max); n*T clause under its guard; for
library circuits the unrolled listing is the n-fold concatenation of the block's listing.
"""
from __future__ import annotations

import random

from symx.core import s_and, s_or, s_implies
from . import common as cm
from . import gen
from qce_circuit.language.declarative_circuit import DeclarativeCircuit
from qce_circuit.structure.intrf_circuit_operation import MultiRelationLink, RelationLink
from qce_circuit.structure.intrf_circuit_operation_composite import CircuitCompositeOperation
from qce_circuit.structure.registry_repetition import FixedRepetitionStrategy, RegistryRepetitionStrategy, RepetitionRegistry
from qce_circuit.structure.registry_duration import FixedDurationStrategy

PROPERTY = 'C06'
FUNCTIONS = ['DeclarativeCircuit.apply_modifiers', 'CircuitCompositeOperation.apply_modifiers_to_self', 'CircuitCompositeOperation.repeat',
             'CircuitCompositeOperation.extend', 'CircuitCompositeOperation.copy', 'MultiRelationLink.reference_node', 'MultiRelationLink.get_start_time',
             'MultiRelationLink.copy', 'RelationLink.copy', 'FixedRepetitionStrategy.get_repetition_number', 'RegistryRepetitionStrategy.get_repetition_number',
             'CircuitCompositeOperation.nr_of_repetitions', 'CircuitGraphBranch.add_to_graph', 'GraphBranch.leaf_nodes',
             'construct_repetition_code_circuit / construct_repetition_code_circuit_simplified (listing clause)']
BOUNDS = {'quick': "programs of 1..3 outer steps with one repeated sub-circuit (count 1..3, fixed or registry-provided) of <= 3 inner Wait steps with every "
                   "relation option (seeded sample of 1500), one level of a repeated sub-circuit inside a repeated sub-circuit (counts 1..2, sample of 300), "
                   "repeated top-level circuit; library circuits d in {2,3}, cycles 0..5 for the concatenation clause",
          'thorough': "counts 1..4, inner programs <= 4 steps, nesting depth 3, 6000 sampled shapes; library circuits d<=4, cycles 0..7"}
OUTSIDE = ["repetition counts < 1", "DynamicRepetitionStrategy callables", "IEEE rounding off the dyadic grid",
           "copy membership of an unrolled operation is read from the links it carries (walk to the first MultiRelationLink)",
           "chain clause for blocks with several relation leaves *and* a JOINED_END relation inside (the listing is not in copy order there; counts, reset and idempotence are still asserted)"]
ASSUMPTIONS = ["memo caches start empty; history = build -> read block duration -> apply_modifiers -> list -> read times -> apply_modifiers again",
               "hash(Sym) constant / == decided by the solver"]
REQUIRED_REACH = ['C06.count', 'C06.untouched', 'C06.reset', 'C06.idempotent.listing', 'C06.idempotent.schedule', 'C06.chain', 'C06.nT', 'C06.library.concat', 'C06.count.after_extension']
EXHAUSTIVE = {'quick': False, 'thorough': False}
JOB_OPTS = {'quick': dict(max_paths=6000, max_seconds=500), 'thorough': dict(max_paths=40000, max_seconds=1500)}
TRUNCATION_OK = {'quick': 4, 'thorough': 20}   # sampled tier: this many random jobs may exhaust their path/time budget (listed as truncated in the evidence)

W_OUT = [['W', 0, 'ALL'], ['W', 1, 'ALL']]
W_IN = [['W', 0, 'ALL'], ['W', 1, 'ALL'], ['W', 0, 'MW']]


def jobs(tier, seed):
    rng = random.Random(seed + 60)
    out = []
    reps = (1, 2, 3) if tier == 'quick' else (1, 2, 3, 4)
    nin = 3 if tier == 'quick' else 4
    inner = list(gen.programs_upto(2, W_IN)) + gen.sample(gen.flat_programs(3, W_IN), 400, seed) + (gen.sample(gen.flat_programs(4, W_IN[:2]), 400, seed) if nin > 3 else [])
    progs = []
    for n_outer in (1, 2, 3):
        progs += gen.sample(gen.nested_programs(W_OUT, inner, n_outer, types='FS', reps=reps), 500 if tier == 'quick' else 1500, seed + n_outer)
    for p in progs:
        out.append({'prog': p, 'reg': rng.random() < 0.3})
    # nested repetition
    small = list(gen.programs_upto(2, W_IN[:2]))
    for _ in range(300 if tier == 'quick' else 1500):
        a = dict(rng.choice(small)); a['rep'] = rng.choice((1, 2))
        b_steps = [{'k': rng.choice(W_IN[:2]), 'rel': None}, {'k': ['S', a], 'rel': rng.choice([None, ['F', 0], ['S', 0]])}]
        if rng.random() < 0.5:
            b_steps.append({'k': rng.choice(W_IN[:2]), 'rel': rng.choice([None, ['F', 1], ['F', 0]])})
        b = {'steps': b_steps, 'rep': rng.choice((1, 2, 3) if tier != 'quick' else (1, 2))}
        outer = [{'k': ['S', b], 'rel': None}]
        if rng.random() < 0.5:
            outer.insert(0, {'k': rng.choice(W_OUT), 'rel': None})
        if rng.random() < 0.5:
            outer.append({'k': rng.choice(W_OUT), 'rel': None})
        out.append({'prog': {'steps': outer}, 'reg': rng.choice([False, False, True, 'shared'])})
    # sibling blocks (and a block inside a block) that read their count from one shared registry entry
    for r in reps[1:]:
        for a in small[:6]:
            for b in small[:3]:
                sa, sb = dict(a, rep=r), dict(b, rep=r)
                out.append({'prog': {'steps': [{'k': ['S', sa], 'rel': None}, {'k': ['S', sb], 'rel': None}]}, 'reg': 'shared'})
                out.append({'prog': {'steps': [{'k': ['S', {'steps': [{'k': W_IN[1], 'rel': None}, {'k': ['S', sb], 'rel': None}], 'rep': r}], 'rel': None},
                                               {'k': ['S', sa], 'rel': ['F', 0]}]}, 'reg': 'shared'})
    # outer count 3 with a nested counted block whose content is a plain wrapper / has parallel branches of unequal length
    def _s(k, rel=None):
        return {'k': k, 'rel': rel}
    for inner_steps in ([_s(['S', {'steps': [_s(W_IN[0]), _s(W_IN[0])]}])],
                        [_s(W_IN[0]), _s(W_IN[1])],
                        [_s(W_IN[0]), _s(W_IN[1]), _s(W_IN[0])],
                        [_s(W_IN[1]), _s(['S', {'steps': [_s(W_IN[0])]}])]):
        for outer_extra in ([], [_s(W_IN[1])]):
            for n_out, n_in in ((3, 2), (4, 2), (3, 3)):
                if tier == 'quick' and (n_out, n_in) != (3, 2):
                    continue
                blk = {'steps': outer_extra + [_s(['S', {'steps': inner_steps, 'rep': n_in}])], 'rep': n_out}
                out.append({'prog': {'steps': [_s(['S', blk])]}, 'reg': False})
                out.append({'prog': {'steps': [_s(W_OUT[0]), _s(['S', blk])]}, 'reg': False})
    # repeated top-level circuit
    for p in gen.sample(inner, 120 if tier == 'quick' else 400, seed + 9):
        for r in reps[1:]:
            q = dict(p); q['rep'] = r
            out.append({'prog': q, 'reg': False, 'top': True})
    for i, j in enumerate(out[:len(progs)]):
        if i % 10 == 0:
            j['late'] = 'again' if i % 20 == 0 else 'unrolled'
    dmax, cmax = (3, 5) if tier == 'quick' else (4, 7)
    for d in range(2, dmax + 1):
        for cycles in range(0, cmax + 1):
            out.append({'library': 'full', 'd': d, 'cycles': cycles})
            if cycles >= 1:   # the simplified constructor uses qec_cycles itself as repetition count; counts < 1 are outside the quantifier
                out.append({'library': 'simplified', 'd': d, 'cycles': cycles})
    return out


def product_of_reps(node):
    p = 1
    n = node.parent
    while n is not None:
        p *= n.rep
        n = n.parent
    return p


def copy_groups(ops):
    """Group unrolled operations by the copy they belong to: walk the links up to the first MultiRelationLink (or to a link without reference)."""
    pos = {id(o): i for i, o in enumerate(ops)}
    group = {}
    for o in ops:
        cur, hops = o, 0
        while True:
            link = cur.relation_link
            if isinstance(link, MultiRelationLink):
                key = id(link)
                break
            ref = link.reference_node
            if ref is None or id(ref) not in pos:
                key = ('root', id(link) if ref is None else id(ref))
                break
            cur = ref
            hops += 1
            if hops > 10000:
                raise RuntimeError("relation cycle")
        group[id(o)] = key
    return group


def sig(o):
    qs = tuple(getattr(o, a) for a in ('qubit_index', 'control_qubit_index', 'target_qubit_index') if hasattr(o, a))
    if hasattr(o, 'qubit_indices'):
        qs = tuple(o.qubit_indices)
    return (type(o).__name__, qs, getattr(o, 'acquisition_tag', None))


def run_library(ctx, params):
    from qce_circuit.library.repetition_code.circuit_constructors import construct_repetition_code_circuit, construct_repetition_code_circuit_simplified
    from qce_circuit.language import InitialStateContainer, InitialStateEnum
    init = InitialStateContainer.from_ordered_list([InitialStateEnum.ZERO] * params['d'])
    fn = construct_repetition_code_circuit if params['library'] == 'full' else construct_repetition_code_circuit_simplified
    c = fn(qec_cycles=params['cycles'], initial_state=init)

    def expected(comp):
        out = []
        for child in cm.composite_children(comp):
            if isinstance(child, CircuitCompositeOperation):
                out.extend(expected(child) * child.nr_of_repetitions)
            else:
                out.append(sig(child))
        return out
    top = c.circuit_structure
    want = expected(top) * top.nr_of_repetitions
    blocks = [(ch.nr_of_repetitions, len(expected(ch))) for ch in c.composite_operations if ch.nr_of_repetitions > 1]
    u = c.apply_modifiers()
    got = [sig(o) for o in u.operations]
    first_diff = next((i for i, (a, b) in enumerate(zip(got, want)) if a != b), None)
    import collections
    no_shift = lambda xs: [x for x in xs if x[0] != 'CoordinateShiftOperation']  # noqa: E731
    ctx.check('C06.library.concat', got == want, {'library': params['library'], 'd': params['d'], 'cycles': params['cycles'], 'n_listed': len(got), 'n_expected': len(want),
                                                  'first_difference': first_diff, 'repeated_blocks': blocks,
                                                  'same_multiset': collections.Counter(got) == collections.Counter(want),
                                                  'equal_without_coordinate_shift': no_shift(got) == no_shift(want)})
    ctx.check('C06.reset', all(x.nr_of_repetitions == 1 for x in u.composite_operations) and u.circuit_structure.nr_of_repetitions == 1, {})


def run(ctx, params):
    if 'library' in params:
        return run_library(ctx, params)
    g = cm.Globals(ctx)
    with g.override():
        prog = params['prog']
        built = cm.Built()
        top_rep = prog.get('rep', 1)
        registry = RepetitionRegistry()
        circuit, nodes = cm.build_circuit(ctx, prog, built)
        built.circuit, built.nodes = circuit, nodes
        if params.get('reg'):
            # registry-provided counts: re-point every repeated sub-circuit at a registry entry carrying the same count
            for n in built.all_nodes:
                if n.is_sub and n.rep > 1:
                    key = f"rep{n.label()}" if params['reg'] != 'shared' else f"count{n.rep}"
                    registry.set_registry_at(key, n.rep)
                    n.obj.repetition_strategy = RegistryRepetitionStrategy(registry=registry, registry_key=key)
        leaves = built.leaves()
        # single-copy facts, read before unrolling
        subs = [n for n in built.all_nodes if n.is_sub and n.rep > 1 and n.parent is None]
        T = {n.label(): n.obj.duration for n in subs}
        untouched = [n for n in built.nodes if not n.is_sub]
        unrolled = circuit.apply_modifiers()
        ops = unrolled.operations
        ctx.observe('n', len(ops))
        # ---- counts -----------------------------------------------------------------------------------------
        total = 0
        for n in leaves:
            want = product_of_reps(n) * top_rep
            total += want
            strat = n.obj.duration_strategy
            got = sum(1 for o in ops if getattr(o, 'duration_strategy', None) is strat)
            ctx.check('C06.count', got == want, {'step': n.label(), 'listed': got, 'expected': want})
        ctx.check('C06.count', len(ops) == total, {'listed_total': len(ops), 'expected_total': total})
        if top_rep == 1:
            ctx.check('C06.untouched', all(any(o is n.obj for o in ops) for n in untouched), {'steps': [n.label() for n in untouched]})
        else:
            ctx.check('C06.untouched', True)
        comps = unrolled.composite_operations
        ctx.check('C06.reset', all(c.nr_of_repetitions == 1 for c in comps) and unrolled.circuit_structure.nr_of_repetitions == 1,
                  {'counts': [c.nr_of_repetitions for c in comps]})
        times = [(o.start_time, o.end_time) for o in ops]
        for k, (s, e) in enumerate(times):
            ctx.observe(f't{k}', [s, e])
        # ---- chain: copy k starts at the max end over the relation leaves of copy k-1 (any nesting depth) -------------------------------
        # Occurrences of one leaf step in the listing are ordered lexicographically by the copy indices of its enclosing repeated
        # blocks (outermost first): a copy hangs below a leaf of the previous copy, so its relation depth -- and its breadth-first
        # position -- is larger; a nested block is expanded in place.
        def ancestors(n):
            out = []
            while n.parent is not None:
                n = n.parent
                out.append(n)
            return list(reversed(out))          # outermost first
        occ = {}
        ok_counts = True
        for n in leaves:
            mine = [o for o in ops if getattr(o, 'duration_strategy', None) is n.obj.duration_strategy]
            radix = [top_rep] + [a.rep for a in ancestors(n)]
            tot = 1
            for r in radix:
                tot *= r
            if len(mine) != tot:
                ok_counts = False
            occ[id(n)] = (mine, radix)

        def op_at(n, ks):
            mine, radix = occ[id(n)]
            idx = 0
            for r, k in zip(radix, ks):
                idx = idx * r + k
            return mine[idx]

        def leaves_under(node):
            return [node] if not node.is_sub else [x for c in node.children for x in leaves_under(c)]

        def all_indices(node, ks):
            """index vectors of every copy of the leaves under `node`, given the indices ks of the blocks enclosing `node`"""
            out = []
            for lf in leaves_under(node):
                anc = ancestors(lf)
                below = anc[anc.index(node):] if node in anc else []
                reps = [a.rep for a in below]
                import itertools as _it
                for tail in _it.product(*[range(r) for r in reps]):
                    out.append((lf, list(ks) + list(tail)))
            return out

        def end_of(step, ks):
            if not step.is_sub:
                return op_at(step, ks).end_time
            return cm.smax([op_at(lf, idx).end_time for lf, idx in all_indices(step, ks)])

        def first_steps(steps):
            depth = cm.relation_depths(steps)
            return [i for i, st in enumerate(steps) if st.rel is None and not cm.implicit_predecessors(steps, i, depth)]

        def leaf_steps_all(steps):
            """Relation leaves of a block, one list per way of resolving ties of the implicit placement (an unrelated step with several
            channel-sharing predecessors of equal depth refers to one of them; the statement leaves open which)."""
            import itertools
            depth = cm.relation_depths(steps)
            referred, ties = set(), []
            for i, st in enumerate(steps):
                preds = [st.rel[1]] if st.rel is not None else cm.implicit_predecessors(steps, i, depth)
                if len(preds) > 1:
                    ties.append(preds)
                else:
                    referred.update(preds)
            out = []
            for pick in itertools.islice(itertools.product(*ties), 32):
                r = referred | set(pick)
                ls_ = [i for i in range(len(steps)) if i not in r]
                if ls_ not in out:
                    out.append(ls_)
            return out

        def leaf_steps(steps):
            return leaf_steps_all(steps)[0]

        def starts_of(step, ks):
            """start terms of the first operations of a step (a sub-circuit starts with the first steps of its copy 0)"""
            if not step.is_sub:
                return [op_at(step, ks).start_time]
            out = []
            for i in first_steps(step.children):
                out += starts_of(step.children[i], list(ks) + [0])
            return out

        def chain(block, ks_outer):
            steps = block.children
            if not leaves_under(block):
                return
            ls, fs = leaf_steps(steps), first_steps(steps)

            def has_e(sts):
                return any((st.rel is not None and st.rel[0] == 'E') or (st.is_sub and has_e(st.children)) for st in sts)
            # With JOINED_END inside a block of several relation leaves an operation may end before it starts relative to its reference, the
            # latest dangling leaf of "what precedes" can then belong to an older copy, the new copy hangs below it and the breadth-first
            # listing is no longer in copy order: the copies cannot be told apart from the listing, the clause is not asserted (OUTSIDE)
            unordered = has_e(steps) and len(ls) > 1
            for k in range(block.rep if not unordered else 0):
                ks = list(ks_outer) + [k]
                if k >= 1:
                    prev_end = cm.smax([end_of(steps[i], list(ks_outer) + [k - 1]) for i in ls])
                    # fingerprint of known finding F1b: a leaf of the previous copy is a nested block in which an operation starts before
                    # the block's first operations, so the block's reported end (start + duration) lies after its last operation
                    early = []
                    for i in ls:
                        if steps[i].is_sub:
                            idxs = all_indices(steps[i], list(ks_outer) + [k - 1])
                            if idxs:
                                first = cm.smin(starts_of(steps[i], list(ks_outer) + [k - 1]))
                                early.append(cm.smin([op_at(lf, ix).start_time for lf, ix in idxs]) < first)
                    early_inner = s_or(*early)
                    alternatives = [cm.smax([end_of(steps[i], list(ks_outer) + [k - 1]) for i in alt]) for alt in leaf_steps_all(steps)[1:]]
                    for i in fs:
                        for st_ in starts_of(steps[i], ks):
                            ctx.check('C06.chain', s_or(st_ == prev_end, *[st_ == a for a in alternatives]), {'block': block.label(), 'copy': k, 'outer_copies': list(ks_outer), 'first_step': steps[i].label(),
                                                                      'start': st_, 'expected_max_leaf_end_of_previous_copy': prev_end, 'leaf_steps': [steps[i2].label() for i2 in ls],
                                                                      'early_inner_op_in_nested_leaf_block': early_inner})
                for c_ in steps:
                    if c_.is_sub:
                        chain(c_, ks)

        if ok_counts and all(n.kind[0] == 'W' for n in leaves):
            class _Top:   # the top-level circuit as a block
                children, rep, is_sub = built.nodes, top_rep, True
                def label(self): return 'top'
            top = _Top()
            for n in built.nodes:
                pass
            # treat the top circuit like any other block (its ancestors list is empty: index vector starts with its own copy index)
            chain(top, [])
            # n*T: if the last-ending operation of one copy is a relation leaf (and nothing starts before the first operations), the block occupies n*T
            for sub in subs:
                steps = sub.children
                if any(c.is_sub for c in steps) or sub.rep < 2:
                    continue
                ls, fs = leaf_steps(steps), first_steps(steps)
                copy0 = [op_at(st, [0, 0]) for st in steps]
                span_end = cm.smax([o.end_time for o in copy0])
                leaf_end = cm.smax([copy0[i].end_time for i in ls])
                s0 = copy0[fs[0]].start_time
                guard = s_and(span_end == leaf_end, *[o.start_time >= s0 for o in copy0])
                last_end = cm.smax([op_at(st, [0, k]).end_time for st in steps for k in range(sub.rep)])
                ctx.check('C06.nT', s_implies(guard, last_end - s0 == sub.rep * T[sub.label()]), {'block': sub.label(), 'n': sub.rep, 'T': T[sub.label()], 'occupied': last_end - s0})
        else:
            ctx.note('chain_skipped_non_wait_leaves', True)
        # ---- idempotence ---------------------------------------------------------------------------------------------------
        again = unrolled.apply_modifiers()
        ops2 = again.operations
        ctx.check('C06.idempotent.listing', len(ops2) == len(ops) and all(a is b for a, b in zip(ops, ops2)), {'first': len(ops), 'second': len(ops2)})
        times2 = [(o.start_time, o.end_time) for o in ops2]
        ctx.check('C06.idempotent.schedule', len(times) == len(times2) and s_and(*[s_and(a[0] == b[0], a[1] == b[1]) for a, b in zip(times, times2)]),
                  {'first': times, 'second': times2})
        # ---- a circuit that was unrolled once is extended and unrolled again: the new counted blocks are replaced like any other -------
        if params.get('late'):
            from qce_circuit.language.declarative_circuit import DeclarativeCircuit
            from qce_circuit.structure import circuit_operations as co_
            from qce_circuit.structure.registry_duration import FixedDurationStrategy as FDS
            target = again if params['late'] == 'again' else unrolled
            inner = DeclarativeCircuit(repetition_strategy=FixedRepetitionStrategy(3))
            s_in = FDS(ctx.real('d_late_in', lo=0))
            inner.add(co_.Wait(8, duration_strategy=s_in))
            wrapper = DeclarativeCircuit()
            s_w = FDS(ctx.real('d_late_w', lo=0))
            wrapper.add(co_.Wait(9, duration_strategy=s_w))
            wrapper.add(inner)
            direct = DeclarativeCircuit(repetition_strategy=FixedRepetitionStrategy(2))
            s_d = FDS(ctx.real('d_late_d', lo=0))
            direct.add(co_.Wait(7, duration_strategy=s_d))
            # first only the plain wrapper (its counted block is nested one level down), then a directly counted block
            target.add(wrapper)
            third = target.apply_modifiers()
            ops3 = third.operations
            got = {name: sum(1 for o in ops3 if getattr(o, 'duration_strategy', None) is st) for name, st in (('nested_x3', s_in), ('wrapper_x1', s_w))}
            ctx.check('C06.count.after_extension', got == {'nested_x3': 3, 'wrapper_x1': 1} and len(ops3) == len(ops) + 4,
                      {'listed': got, 'expected': {'nested_x3': 3, 'wrapper_x1': 1}, 'listed_total': len(ops3), 'expected_total': len(ops) + 4})
            third.add(direct)
            fourth = third.apply_modifiers()
            ops4 = fourth.operations
            got = {name: sum(1 for o in ops4 if getattr(o, 'duration_strategy', None) is st) for name, st in (('nested_x3', s_in), ('wrapper_x1', s_w), ('direct_x2', s_d))}
            ctx.check('C06.count.after_extension', got == {'nested_x3': 3, 'wrapper_x1': 1, 'direct_x2': 2} and len(ops4) == len(ops) + 6,
                      {'listed': got, 'expected': {'nested_x3': 3, 'wrapper_x1': 1, 'direct_x2': 2}, 'listed_total': len(ops4), 'expected_total': len(ops) + 6})
            ctx.check('C06.reset.after_extension', all(c_.nr_of_repetitions == 1 for c_ in fourth.composite_operations), {})

