"""
C04 -- a (sub-)circuit's duration spans everything it contains.

Real code executed symbolically: DeclarativeCircuit.add/add_sub_circuit/operations/duration,
CircuitCompositeOperation.duration/start_time/decomposed_operations/copy, CircuitGraphBranch.add_to_graph,
GraphBranch.get_nodes_at/leaf_nodes, RelationLink.get_start_time (through the real lru_cache), all duration strategies.
Every fixed duration is an unbounded symbolic real >= 0; the program shape is enumerated (bounded).
Oracle: span = max end - min start over the operations the (sub-)circuit lists (z3 If-chains, no forking).
"""
from __future__ import annotations

import random

from symx.core import s_and, s_or, s_not, s_implies
from . import common as cm
from . import gen

PROPERTY = 'C04'
FUNCTIONS = ['CircuitCompositeOperation.duration', 'CircuitCompositeOperation.start_time', 'IDurationComponent.end_time',
             'CircuitCompositeOperation.decomposed_operations', 'CircuitCompositeOperation.copy', 'CircuitGraphBranch.add_to_graph',
             'CircuitGraphBranch.get_leaf_at_any', 'GraphBranch._update_branch_iterator', 'GraphBranch.get_nodes_at',
             'RelationLink.get_start_time', 'FixedDurationStrategy.get_variable_duration', 'DeclarativeCircuit.add_sub_circuit',
             'DeclarativeCircuit.add_operation', 'DeclarativeCircuit.operations', 'DeclarativeCircuit.duration']
BOUNDS = {
    'quick': "flat programs of <= 3 leaf steps over {Wait q0 ALL, Wait q1 ALL, Wait q0 MW, Wait q0 FL}, every relation option "
             "(none / FOLLOWED_BY / JOINED_START / JOINED_END to any earlier step); nested programs: 2-3 outer steps with one "
             "sub-circuit of <= 2 inner steps at any position, any relation on the sub-circuit; empty circuit and empty sub-circuit; "
             "all fixed durations symbolic reals >= 0 (unbounded)",
    'thorough': "flat programs of <= 4 leaf steps (all relation options), nested programs with sub-circuits of <= 3 inner steps in "
                "<= 3 outer steps, depth-2 nesting, plus VERIF_SEED-seeded random shapes with <= 8 leaves and depth <= 3 "
                "(shapes sampled, durations fully symbolic)",
}
OUTSIDE = ["IEEE rounding off the dyadic grid (durations are exact reals)", "programs larger than the stated shape bounds",
           "relations that point at an operation of a different circuit", "repetition counts > 1 (covered by C06)"]
ASSUMPTIONS = ["memo caches start empty at the beginning of each history (fresh process); the history is build -> observe",
               "hash(Sym) is constant and == is decided by the solver, so dict/set/lru_cache/dataclass lookups are modelled as semantic equality"]
REQUIRED_REACH = ['C04.span', 'C04.empty', 'C04.followers', 'C04.span.after_growth']
EXHAUSTIVE = {'quick': True, 'thorough': False}
JOB_OPTS = {'quick': dict(max_paths=4000, max_seconds=300), 'thorough': dict(max_paths=20000, max_seconds=900)}
TRUNCATION_OK = {'quick': 4, 'thorough': 20}   # sampled tier: this many random jobs may exhaust their path/time budget (listed as truncated in the evidence)

ALPHA = [['W', 0, 'ALL'], ['W', 1, 'ALL'], ['W', 0, 'MW'], ['W', 0, 'FL']]
ALPHA_SMALL = [['W', 0, 'ALL'], ['W', 1, 'ALL'], ['W', 0, 'MW']]


def jobs(tier, seed):
    out = [{'prog': {'steps': []}}, {'prog': {'steps': [{'k': ['S', {'steps': []}], 'rel': None}]}},
           {'prog': {'steps': [{'k': ['W', 0, 'ALL'], 'rel': None}, {'k': ['S', {'steps': []}], 'rel': None}, {'k': ['W', 0, 'ALL'], 'rel': None}]}}]
    if tier == 'quick':
        out += [{'prog': p} for p in gen.programs_upto(3, ALPHA)]
        inner = list(gen.programs_upto(2, ALPHA_SMALL))
        out += [{'prog': p} for p in gen.nested_programs(ALPHA_SMALL[:2], inner, 2)]
        out += [{'prog': p} for p in gen.sample(gen.nested_programs(ALPHA_SMALL[:2], inner, 3), 1500, seed)]
    else:
        out += [{'prog': p} for p in gen.programs_upto(3, ALPHA)]
        out += [{'prog': p} for p in gen.sample(gen.flat_programs(4, ALPHA_SMALL), 6000, seed)]
        inner = list(gen.programs_upto(2, ALPHA_SMALL)) + gen.sample(gen.flat_programs(3, ALPHA_SMALL), 200, seed)
        out += [{'prog': p} for p in gen.nested_programs(ALPHA_SMALL[:2], inner, 2)]
        out += [{'prog': p} for p in gen.sample(gen.nested_programs(ALPHA_SMALL[:2], inner, 3), 6000, seed + 1)]
        rng = random.Random(seed + 4)
        for _ in range(1500):
            p = gen.random_program(rng, ALPHA, 4, 2, reps=(1,))
            if gen.count_leaves(p) <= 8:
                out.append({'prog': p, 'random': True})
    R_ = ['R', 0, 'ALL', 'unset']
    for prog in ({'steps': [{'k': ['W', 0, 'ALL'], 'rel': None}, {'k': ['S', {'steps': [{'k': R_, 'rel': None}, {'k': ['W', 0, 'ALL'], 'rel': None}]}], 'rel': None}, {'k': ['W', 0, 'ALL'], 'rel': None}]},
                 {'steps': [{'k': ['S', {'steps': [{'k': ['W', 1, 'ALL'], 'rel': None}, {'k': R_, 'rel': ['S', 0]}]}], 'rel': None}, {'k': ['W', 1, 'ALL'], 'rel': ['F', 0]}]},
                 {'steps': [{'k': R_, 'rel': None}, {'k': ['W', 0, 'ALL'], 'rel': None}]}):
        out.append({'prog': prog, 'late_set': True})
    k = 0
    for j in out:
        if any(st['k'][0] == 'S' for st in j['prog']['steps']):
            k += 1
            if k % 2 == 0:
                j['grow'] = True   # growth history on every second nested program
    return out


def check_span(ctx, comp, label, where, inherited_e=False, reported=None, clause='C04.span'):
    """duration(comp) == max end - min start over the operations comp lists (`reported`: a duration read earlier, before this listing)."""
    ops = comp.decomposed_operations()
    dur = comp.duration if reported is None else reported
    ctx.observe(f'{label}.duration', dur)
    if not ops:
        ctx.check('C04.empty', dur == 0, {'where': where, 'duration': dur})
        return
    starts = [o.start_time for o in ops]
    ends = [o.end_time for o in ops]
    span = cm.smax(ends) - cm.smin(starts)
    # fingerprint of known finding F1b: some *nested* block contains an operation that starts before the block's first operations
    early = []
    for sub in comp.get_sub_composite_operations():
        inner = sub.decomposed_operations()
        if inner:
            early.append(cm.smin([o.start_time for o in inner]) < sub.start_time)
    kids = cm.composite_children(comp)
    node_span = cm.smax([k.end_time for k in kids]) - cm.smin([k.start_time for k in kids])
    ctx.check(clause, dur == span, {'where': where, 'reported': dur, 'span': span, 'starts': starts, 'ends': ends,
                                         'fingerprint': 'duration_ne_span', 'early_inner_op_in_nested_block': s_or(*early),
                                         'reported_equals_node_level_span': dur == node_span,
                                         'inherited_joined_end_in_listing': inherited_e})


def run(ctx, params):
    built = cm.build(ctx, params['prog'])
    circuit = built.circuit
    ops = circuit.operations
    for o in ops:
        ctx.observe('start', o.start_time)
        ctx.observe('end', o.end_time)
    # fingerprint of known finding F4b (see C01): an operation that was given no relation carries a JOINED_END link handed
    # down from its enclosing sub-circuit, so it is misplaced relative to that sub-circuit
    from qce_circuit.structure.intrf_circuit_operation import RelationType
    inherited_e = any(n.rel is None and n.obj.relation_link.reference_node is not None
                      and n.obj.relation_link.relation_type == RelationType.JOINED_END for n in built.all_nodes)
    check_span(ctx, circuit.circuit_structure, 'top', 'circuit', inherited_e)
    ctx.check('C04.top_duration_api', circuit.duration == circuit.circuit_structure.duration)
    for n in built.all_nodes:
        if n.is_sub:
            check_span(ctx, n.obj, n.label(), f'sub-circuit {n.label()}', inherited_e)
    # consequence clause: whatever is scheduled FOLLOWED_BY a block starts after all of the block's operations ended,
    # provided no contained operation starts before the block's first operations
    def followers(nodes):
        depth = cm.relation_depths(nodes)
        for i, n in enumerate(nodes):
            preds = []
            if n.rel is not None and n.rel[0] == 'F':
                preds = [n.rel[1]]
            elif n.rel is None:
                p = cm.implicit_predecessors(nodes, i, depth)
                preds = p if len(p) == 1 else []
            for j in preds:
                blk = nodes[j]
                if not blk.is_sub:
                    continue
                inner = blk.obj.decomposed_operations()
                if not inner:
                    continue
                s_blk = blk.obj.start_time
                guard = s_and(*[o.start_time >= s_blk for o in inner])
                mine = n.obj.start_time
                concl = s_and(*[mine >= o.end_time for o in inner])
                ctx.check('C04.followers', s_implies(guard, concl), {'follower': n.label(), 'block': blk.label(), 'start': mine,
                                                                    'ends': [o.end_time for o in inner], 'fingerprint': 'follower_before_block_end',
                                                                    'inherited_joined_end_in_listing': inherited_e})
        for n in nodes:
            if n.is_sub:
                followers(n.children)
    followers(built.nodes)
    # the same two clauses after a nested block grew through the handle add() returned for it: the durations are read first (plain
    # property reads, no listing in between), the listing they are compared with afterwards
    if params.get('late_set'):
        # a registry key is assigned for the first time after the durations were read once; they are read again before any listing
        for i, key in enumerate(built.unset_keys):
            built.registry.set_registry_at(key, ctx.real(f'v_late{i}', lo=0))
        d_top = circuit.circuit_structure.duration
        d_subs = [(n, n.obj.duration) for n in built.all_nodes if n.is_sub]
        entries = [(n.obj.start_time, n.obj.end_time) for n in built.nodes]
        check_span(ctx, circuit.circuit_structure, 'top.assigned', 'circuit after first assignment of a registry key', inherited_e, reported=d_top, clause='C04.span.after_assignment')
        for n, d_ in d_subs:
            check_span(ctx, n.obj, n.label() + '.assigned', f'sub-circuit {n.label()} after first assignment', inherited_e, reported=d_, clause='C04.span.after_assignment')
        again = [(n.obj.start_time, n.obj.end_time) for n in built.nodes]
        ctx.check('C04.span.after_assignment.entries', s_and(*[s_and(a[0] == b[0], a[1] == b[1]) for a, b in zip(entries, again)]),
                  {'fingerprint': 'duration_ne_span', 'before_listing': entries, 'after_listing': again, 'inherited_joined_end_in_listing': inherited_e})
        return
    subs = [n for n in built.nodes if n.is_sub and n.leaves()]
    if subs and params.get('grow'):
        from qce_circuit.structure import circuit_operations as co_
        from qce_circuit.structure.registry_duration import FixedDurationStrategy as FDS
        blk = subs[0]
        lf = blk.leaves()[0]
        blk.obj.add(co_.Wait(lf.kind[1], duration_strategy=FDS(ctx.real('d_grown', lo=0))))
        d_top, d_blk = circuit.circuit_structure.duration, blk.obj.duration
        starts_after = [(n.obj.start_time, n.obj.end_time) for n in built.nodes]
        check_span(ctx, circuit.circuit_structure, 'top.grown', 'circuit after growth', inherited_e, reported=d_top, clause='C04.span.after_growth')
        check_span(ctx, blk.obj, blk.label() + '.grown', f'sub-circuit {blk.label()} after growth', inherited_e, reported=d_blk, clause='C04.span.after_growth')
        again = [(n.obj.start_time, n.obj.end_time) for n in built.nodes]
        ctx.check('C04.span.after_growth.entries', s_and(*[s_and(a[0] == b[0], a[1] == b[1]) for a, b in zip(starts_after, again)]),
                  {'fingerprint': 'duration_ne_span', 'before_listing': starts_after, 'after_listing': again, 'inherited_joined_end_in_listing': inherited_e})
