"""
C12 -- index kernels tile the acquisition index range without gaps or overlap.

Real code executed symbolically: RepetitionIndexKernel (all properties and getters), RelativeIndexStrategy/FixedIndexStrategy,
QutritCalibrationIndexKernel, RepetitionExperimentKernel (constructor, kernel_cycle_length, all six getters,
create_sliced_array(s), estimate_experiment_repetitions), GeneralCalibrationIndexKernel.
Round counts are unbounded symbolic integers >= 0, pairwise distinct; only the kernel whose stabiliser list is materialised
(`range(1, n)`) has an enumerable round count; experiment repetitions are enumerable where the code loops over them.
"""
from __future__ import annotations

import itertools

import numpy as np

from symx.core import Sym, s_and, s_or, s_not, s_implies
from qce_circuit.structure.acquisition_indexing.kernel_repetition_code import RepetitionIndexKernel, RepetitionExperimentKernel
from qce_circuit.structure.acquisition_indexing.kernel_calibration import QutritCalibrationIndexKernel, GeneralCalibrationIndexKernel
from qce_circuit.structure.acquisition_indexing.intrf_index_strategy import FixedIndexStrategy, RelativeIndexStrategy
from qce_circuit.structure.acquisition_indexing.intrf_stabilizer_index_kernel import StateKey
from qce_circuit.connectivity.intrf_channel_identifier import QubitIDObj

PROPERTY = 'C12'
FUNCTIONS = ['RepetitionIndexKernel.start_index/stop_index/index_delta_*', 'RepetitionIndexKernel.get_heralded_measurement_index',
             'RepetitionIndexKernel.get_ordered_stabilizer_measurement_indices', 'RepetitionIndexKernel.get_final_measurement_index',
             'RepetitionIndexKernel.contains', 'RelativeIndexStrategy.get_index', 'FixedIndexStrategy.get_index',
             'QutritCalibrationIndexKernel.* (stop_index and the six getters)', 'RepetitionExperimentKernel.__init__',
             'RepetitionExperimentKernel.kernel_cycle_length/start_index/stop_index', 'RepetitionExperimentKernel.get_*_acquisition_indices (6)',
             'RepetitionExperimentKernel.create_sliced_arrays/create_sliced_array', 'RepetitionExperimentKernel.estimate_experiment_repetitions',
             'GeneralCalibrationIndexKernel.*']
BOUNDS = {
    'quick': "rounds lists of length 1..3, every round count an unbounded symbolic int >= 0 (pairwise distinct); the kernel whose category lists "
             "are read has its round count in [0,6]; experiment repetitions in [1,3] where the getters loop over them; both heralded settings; "
             "identifier sets {2 data,1 ancilla}, {0 data,2 ancilla}, {1 data, 0 ancilla}; estimate clause: rounds concrete from {0,1,2,5}, "
             "repetitions symbolic in [1,6]; GeneralCalibrationIndexKernel: offset in [0,2], repetitions in [1,3], all 4 flag settings",
    'thorough': "rounds lists of length 1..6, focus round count in [0,16], repetitions in [1,5]; estimate: rounds from {0,1,2,3,5,8}, lists of length <= 3, repetitions in [1,12]",
}
OUTSIDE = ["int(dataset_size / cycle) is float division: the claim is for dataset sizes < 2**53", "round lists longer than the bound",
           "negative round counts (the constructor only warns)", "RepetitionExperimentKernel.contains (raises NotImplemented by design)"]
ASSUMPTIONS = ["qubit identifiers are concrete names (membership tests are plain string comparisons)"]
REQUIRED_REACH = ['C12.tile.start0', 'C12.tile.contiguous', 'C12.tile.cycle', 'C12.cat.inside', 'C12.cat.disjoint', 'C12.cat.cover', 'C12.cat.nonmember',
                  'C12.calib.inside', 'C12.calib.partition', 'C12.rep.translate', 'C12.rep.row0', 'C12.rep.absent', 'C12.estimate', 'C12.general.inside', 'C12.general.disjoint', 'C12.general.translate']
EXHAUSTIVE = {'quick': True, 'thorough': True}
JOB_OPTS = {'quick': dict(max_paths=20000, max_seconds=600), 'thorough': dict(max_paths=100000, max_seconds=1500)}

IDSETS = {
    'a': (['D1', 'D2'], ['X1']),
    'b': ([], ['Z1', 'Z2']),
    'c': (['D5'], []),
}


def jobs(tier, seed):
    kmax, rmax, repmax = (3, 6, 3) if tier == 'quick' else (6, 16, 5)
    out = []
    for k in range(1, kmax + 1):
        for h in (False, True):
            out.append({'part': 'tile', 'k': k, 'heralded': h})
            for focus in range(k):
                for ids in IDSETS:
                    out.append({'part': 'cat', 'k': k, 'heralded': h, 'focus': focus, 'rmax': rmax, 'ids': ids})
                out.append({'part': 'rep', 'k': k, 'heralded': h, 'focus': focus, 'rmax': min(rmax, 4), 'repmax': repmax})
    est_rounds = [0, 1, 2, 5] if tier == 'quick' else [0, 1, 2, 3, 5, 8]
    lmax = 2 if tier == 'quick' else 3
    for l in range(1, lmax + 1):
        for rs in itertools.permutations(est_rounds, l):
            for h in (False, True):
                for q in (False, True):
                    out.append({'part': 'estimate', 'rounds': list(rs), 'heralded': h, 'qutrit': q, 'repmax': 6 if tier == 'quick' else 12})
    for h in (False, True):
        for f in (False, True):
            out.append({'part': 'general', 'heralded': h, 'f': f, 'offmax': 2, 'repmax': 3 if tier == 'quick' else 4})
    return out


def _rounds(ctx, k, focus=None, rmax=None):
    rs = []
    for i in range(k):
        if focus is not None and i == focus:
            rs.append(ctx.int_(f'r{i}', lo=0, hi=rmax))
        else:
            rs.append(ctx.int_(f'r{i}', lo=0))
    for i in range(k):
        for j in range(i):
            ctx.assume(rs[i] != rs[j])
    return rs


def _ids(name):
    d, a = IDSETS[name]
    return [QubitIDObj(x) for x in d], [QubitIDObj(x) for x in a]


def _pairwise_distinct(xs):
    return s_and(*[xs[i] != xs[j] for i in range(len(xs)) for j in range(i)])


def _inside(xs, lo, hi):
    return s_and(*[s_and(lo <= x, x <= hi) for x in xs])


def _tolist(a):
    return a.tolist() if isinstance(a, np.ndarray) else list(a)


def run(ctx, params):
    part = params['part']
    if part == 'tile':
        rs = _rounds(ctx, params['k'])
        d, a = _ids('a')
        ek = RepetitionExperimentKernel(rounds=rs, heralded_initialization=params['heralded'], qutrit_calibration_points=True,
                                        involved_data_qubit_ids=d, involved_ancilla_qubit_ids=a, experiment_repetitions=ctx.int_('reps', lo=1))
        ks = ek.indexing_kernels
        ctx.observe('starts', [k.start_index for k in ks])
        ctx.observe('stops', [k.stop_index for k in ks])
        ctx.check('C12.tile.start0', ks[0].start_index == 0, {'start0': ks[0].start_index})
        for i in range(len(ks) - 1):
            ctx.check('C12.tile.contiguous', ks[i + 1].start_index == ks[i].stop_index + 1,
                      {'i': i, 'stop_i': ks[i].stop_index, 'start_next': ks[i + 1].start_index, 'rounds': rs})
        for i, k in enumerate(ks):
            ctx.check('C12.tile.nonempty', k.stop_index >= k.start_index, {'i': i, 'start': k.start_index, 'stop': k.stop_index, 'rounds': rs})
        ctx.check('C12.tile.cycle', ek.kernel_cycle_length == ks[-1].stop_index - ks[0].start_index + 1, {})
        ctx.check('C12.tile.exp_start', ek.start_index == 0)
        # lengths: each repetition kernel holds heralded + max(0, r-1) + 1 indices, calibration 3 * (heralded + 1)
        h = 1 if params['heralded'] else 0
        total = 0
        for r in rs:
            total = total + h + 1 + (r - 1 if bool(r >= 1) else 0)
        total = total + 3 * (h + 1)
        ctx.check('C12.tile.length', ek.kernel_cycle_length == total, {'cycle': ek.kernel_cycle_length, 'expected': total, 'rounds': rs})
        return
    if part == 'cat':
        rs = _rounds(ctx, params['k'], params['focus'], params['rmax'])
        d, a = _ids(params['ids'])
        ek = RepetitionExperimentKernel(rounds=rs, heralded_initialization=params['heralded'], qutrit_calibration_points=True,
                                        involved_data_qubit_ids=d, involved_ancilla_qubit_ids=a, experiment_repetitions=1)
        kern = ek.indexing_kernels[params['focus']]
        lo, hi = kern.start_index, kern.stop_index
        r = rs[params['focus']]
        for who, elems in (('ancilla', a), ('data', d), ('outsider', [QubitIDObj('Q9')])):
            for el in elems[:1]:
                he = kern.get_heralded_measurement_index(el)
                st = kern.get_ordered_stabilizer_measurement_indices(el)
                fi = kern.get_final_measurement_index(el)
                ctx.observe(f'{who}.lens', [len(he), len(st), len(fi)])
                allx = list(he) + list(st) + list(fi)
                info = {'who': who, 'heralded': he, 'stabilizer': st, 'final': fi, 'start': lo, 'stop': hi, 'rounds': rs, 'h': params['heralded']}
                if who == 'outsider':
                    ctx.check('C12.cat.nonmember', len(allx) == 0 and len(kern.contains(el)) == 0, info)
                    continue
                ctx.check('C12.cat.inside', _inside(allx, lo, hi), info)
                ctx.check('C12.cat.disjoint', _pairwise_distinct(allx), info)
                ctx.check('C12.cat.heralded_first', len(he) == (1 if params['heralded'] else 0) and all(bool(x == lo) for x in he), info)
                cont = kern.contains(el)
                ctx.check('C12.cat.contains', len(cont) == len(allx) and s_and(*[s_or(*[c == x for x in allx]) for c in cont]), info)
                if who == 'ancilla':
                    # union covers the kernel range, except the documented missing (final) slot of a 0-round block
                    size = hi - lo + 1
                    if bool(r == 0):
                        ctx.check('C12.cat.cover', s_and(size == len(allx) + 1, len(fi) == 0, s_not(s_or(*[x == hi for x in allx])) if allx else True), info)
                    else:
                        ctx.check('C12.cat.cover', s_and(size == len(allx), len(fi) == 1, fi[0] == hi) if len(fi) == 1 else False, info)
                        ctx.check('C12.cat.stab_count', s_and(len(st) == r - 1), info)
                        ctx.check('C12.cat.stab_sorted', s_and(*[st[i + 1] == st[i] + 1 for i in range(len(st) - 1)]), info)
                else:
                    ctx.check('C12.cat.data', s_and(len(st) == 0, len(fi) == 1, fi[0] == hi) if len(fi) == 1 else False, info)
        # calibration kernel
        ck = ek.indexing_kernels[-1]
        clo, chi = ck.start_index, ck.stop_index
        el = (a + d)[0]
        cats = [ck.get_heralded_state_0_measurement_index(el), ck.get_state_0_measurement_index(el),
                ck.get_heralded_state_1_measurement_index(el), ck.get_state_1_measurement_index(el),
                ck.get_heralded_state_2_measurement_index(el), ck.get_state_2_measurement_index(el)]
        flat = [x for c in cats for x in c]
        info = {'cats': cats, 'start': clo, 'stop': chi}
        ctx.check('C12.calib.inside', _inside(flat, clo, chi), info)
        ctx.check('C12.calib.partition', s_and(_pairwise_distinct(flat), chi - clo + 1 == len(flat)), info)
        ctx.check('C12.calib.order', s_and(*[flat[i] < flat[i + 1] for i in range(len(flat) - 1)]), info)
        ctx.check('C12.calib.contains', len(ck.contains(el)) == len(flat) and len(ck.contains(QubitIDObj('Q9'))) == 0, info)
        return
    if part == 'rep':
        rs = _rounds(ctx, params['k'], params['focus'], params['rmax'])
        d, a = _ids('a')
        reps = ctx.int_('reps', lo=1, hi=params['repmax'])
        ek = RepetitionExperimentKernel(rounds=rs, heralded_initialization=params['heralded'], qutrit_calibration_points=True,
                                        involved_data_qubit_ids=d, involved_ancilla_qubit_ids=a, experiment_repetitions=reps)
        cyc = ek.kernel_cycle_length
        kern = ek.indexing_kernels[params['focus']]
        r = rs[params['focus']]
        el = a[0]
        he = kern.get_heralded_measurement_index(el)
        st = kern.get_ordered_stabilizer_measurement_indices(el)
        fi = kern.get_final_measurement_index(el)
        got = {
            'heralded': (ek.get_heralded_cycle_acquisition_indices(el, r), list(he)),
            'stab+proj': (ek.get_stabilizer_and_projected_cycle_acquisition_indices(el, r), list(st) + list(fi)),
            'proj': (ek.get_projected_cycle_acquisition_indices(el, r), list(fi)),
        }
        n = int(reps)
        for name, (arr, row0) in got.items():
            rows = [_tolist(x) for x in arr] if len(row0) or len(arr) else []
            info = {'getter': name, 'rows': rows, 'row0': row0, 'cycle': cyc, 'rounds': rs, 'reps': n}
            ctx.observe(f'{name}.shape', [len(rows), len(row0)])
            ctx.check('C12.rep.row0', len(rows) == n and all(len(x) == len(row0) for x in rows) and s_and(*[a_ == b_ for a_, b_ in zip(rows[0], row0)]), info)
            ctx.check('C12.rep.translate', s_and(*[rows[m][j] == rows[0][j] + m * cyc for m in range(len(rows)) for j in range(len(row0))]), info)
        # calibration getters (flattened: repetition-major)
        ck = ek.indexing_kernels[-1]
        for state, h0, p0 in ((StateKey.STATE_0, ck.get_heralded_state_0_measurement_index(el), ck.get_state_0_measurement_index(el)),
                              (StateKey.STATE_1, ck.get_heralded_state_1_measurement_index(el), ck.get_state_1_measurement_index(el)),
                              (StateKey.STATE_2, ck.get_heralded_state_2_measurement_index(el), ck.get_state_2_measurement_index(el))):
            for name, arr, row0 in (('calib.heralded', ek.get_heralded_calibration_acquisition_indices(el, state), h0),
                                    ('calib.proj', ek.get_projected_calibration_acquisition_indices(el, state), p0)):
                flat = _tolist(arr)
                info = {'getter': name, 'state': state.name, 'flat': flat, 'row0': row0, 'cycle': cyc, 'reps': n}
                ok_len = len(flat) == n * len(row0)
                ctx.check('C12.rep.translate', ok_len and s_and(*[flat[m * len(row0) + j] == row0[j] + m * cyc for m in range(n) for j in range(len(row0))]), info)
        # a stabiliser count that no block has
        absent = ctx.int_('absent', lo=0)
        for rr in rs:
            ctx.assume(absent != rr)
        e1 = ek.get_heralded_cycle_acquisition_indices(el, absent)
        e2 = ek.get_stabilizer_and_projected_cycle_acquisition_indices(el, absent)
        e3 = ek.get_projected_cycle_acquisition_indices(el, absent)
        ctx.check('C12.rep.absent', len(e1) == 0 and len(e2) == 0 and len(e3) == 0, {})
        return
    if part == 'estimate':
        rounds = params['rounds']
        reps = ctx.int_('reps', lo=1, hi=params['repmax'])
        d, a = _ids('a')
        ek = RepetitionExperimentKernel(rounds=rounds, heralded_initialization=params['heralded'], qutrit_calibration_points=params['qutrit'],
                                        involved_data_qubit_ids=d, involved_ancilla_qubit_ids=a, experiment_repetitions=1)
        if params['qutrit']:
            cycle = ek.kernel_cycle_length
        else:
            cycle = ek._repetition_kernels[-1].stop_index - ek._repetition_kernels[0].start_index + 1
        dataset = reps * cycle
        est = RepetitionExperimentKernel.estimate_experiment_repetitions(rounds=rounds, heralded_initialization=params['heralded'],
                                                                         qutrit_calibration_points=params['qutrit'], dataset_size=dataset)
        ctx.observe('est', est)
        ctx.check('C12.estimate', est == reps, {'rounds': rounds, 'cycle': cycle, 'dataset': dataset, 'estimate': est, 'reps': reps})
        return
    if part == 'general':
        off = ctx.int_('off', lo=0, hi=params['offmax'])
        reps = ctx.int_('reps', lo=1, hi=params['repmax'])
        gk = GeneralCalibrationIndexKernel(index_offset_strategy=FixedIndexStrategy(index=off), heralded_initialization=params['heralded'],
                                           f_state=params['f'], repetitions=reps)
        lo, hi = gk.start_index, gk.stop_index
        states = [StateKey.STATE_0, StateKey.STATE_1, StateKey.STATE_2]
        cats = {}
        for s in states:
            cats[f'h{s.value}'] = gk.get_heralded_state_measurement_index(s)
            cats[f'c{s.value}'] = gk.get_calibration_state_measurement_index(s)
        flat = [x for c in cats.values() for x in c]
        info = {'cats': cats, 'start': lo, 'stop': hi, 'heralded': params['heralded'], 'f': params['f']}
        ctx.observe('n', len(flat))
        n_states = 3 if params['f'] else 2
        # the statement's clauses for a calibration kernel: every category inside the kernel, categories pairwise disjoint,
        # successive repetitions exact translates by the cycle length (one entry per repetition)
        ctx.check('C12.general.inside', all(int(lo) <= x <= int(hi) for x in flat), info)
        ctx.check('C12.general.disjoint', len(set(flat)) == len(flat), info)
        cyc = gk.cycle_length
        want = ['c0', 'c1'] + (['c2'] if params['f'] else []) + ((['h0', 'h1'] + (['h2'] if params['f'] else [])) if params['heralded'] else [])
        ctx.check('C12.general.translate', all(len(cats[k]) == int(reps) and all(cats[k][m] == cats[k][0] + m * cyc for m in range(len(cats[k])))
                                               for k in want), info)
        ctx.check('C12.general.contains', list(gk.contains(QubitIDObj('D1'))) == list(range(int(lo), int(hi) + 1)), info)
        if not params['f']:
            ctx.check('C12.general.no_f', cats['h2'] == [] and cats['c2'] == [], info)
        if not params['heralded']:
            ctx.check('C12.general.no_heralded', all(cats[f'h{i}'] == [] for i in range(3)), info)
        return
    raise ValueError(part)
