"""
C13 -- index kernels agree with the experiment circuit they describe.

Real code executed symbolically: construct_repetition_code_multi_round_circuit (and through it construct_repetition_code_circuit,
get_circuit_qec_with_detectors with its 0/1/2/3/>=4 case split, apply_modifiers, flatten), construct_calibration_circuit,
DeclarativeCircuit.get_acquisition_indices(AcquisitionTag), RepetitionExperimentKernel and its getters with experiment_repetitions = 1.
Each round count is a symbolic integer in [0, R]: the constructor's own branch points (`qec_cycles > 1`, `> 2`, `> 3`, `min(2, n-1)`,
`range(times-1)`) are discovered by solver-decided forks / enumeration, the kernel arithmetic stays symbolic.
"""
from __future__ import annotations

import itertools

from symx.core import Sym, s_and
from . import lib
from qce_circuit.language import InitialStateContainer, InitialStateEnum
from qce_circuit.library.repetition_code.circuit_components import RepetitionCodeDescription
from qce_circuit.library.repetition_code.circuit_constructors import construct_repetition_code_multi_round_circuit
from qce_circuit.structure.acquisition_indexing.kernel_repetition_code import RepetitionExperimentKernel
from qce_circuit.structure.acquisition_indexing.intrf_stabilizer_index_kernel import StateKey
from qce_circuit.structure.intrf_acquisition_operation import AcquisitionTag

PROPERTY = 'C13'
FUNCTIONS = ['construct_repetition_code_multi_round_circuit', 'construct_repetition_code_circuit', 'get_circuit_qec_with_detectors', 'get_circuit_initialize_with_heralded',
             'get_circuit_final_measurement', 'construct_calibration_circuit', 'get_circuit_calibrate_with_heralded', 'DeclarativeCircuit.get_acquisition_indices(AcquisitionTag)',
             'DeclarativeCircuit.apply_modifiers/flatten', 'RepetitionExperimentKernel.get_heralded_cycle_acquisition_indices',
             'RepetitionExperimentKernel.get_stabilizer_and_projected_cycle_acquisition_indices', 'RepetitionExperimentKernel.get_projected_cycle_acquisition_indices',
             'RepetitionExperimentKernel.get_heralded_calibration_acquisition_indices', 'RepetitionExperimentKernel.get_projected_calibration_acquisition_indices',
             'RepetitionExperimentKernel.kernel_cycle_length']
BOUNDS = {'quick': "rounds lists of length 1..2 with every entry a symbolic integer in [0,5] (length 1) / [0,4] (length 2, d = 2) / [0,3] (length 2, d = 3), pairwise distinct, code distance d in {2,3}, initial states all-zero and alternating; "
                   "chain description from_chain(2d-1)",
          'thorough': "entries in [0,5], lists of length <= 3 (d = 2) / <= 2 (d in {3,4}), all computational initial states for d = 2"}
OUTSIDE = ["round counts above the bound (the unrolled circuit grows with them)", "descriptions other than from_chain", "experiment_repetitions > 1 (translation is C12's subject)"]
ASSUMPTIONS = ["the documented 0-round exception: the circuit measures each ancilla once (tag 'final') and the kernel reports no projected index for that block"]
REQUIRED_REACH = ['C13.calibration_state', 'C13.heralded', 'C13.parity', 'C13.final', 'C13.count', 'C13.zero_round_exception']
EXHAUSTIVE = {'quick': True, 'thorough': True}
JOB_OPTS = {'quick': dict(max_paths=400, max_seconds=900, twin_every=3), 'thorough': dict(max_paths=4000, max_seconds=3000, twin_every=6)}


def jobs(tier, seed):
    out = []
    if tier == 'quick':
        for d in (2, 3):
            for k in (1, 2):
                for init in ('zero', 'alt'):
                    if d == 3 and k == 2 and init == 'alt':
                        continue
                    out.append({'d': d, 'k': k, 'R': 5 if k == 1 else (4 if d == 2 else 3), 'init': init})
    else:
        for d, kmax in ((2, 3), (3, 2), (4, 2)):
            for k in range(1, kmax + 1):
                inits = ['zero', 'alt'] + ([f'bits{b}' for b in range(4)] if d == 2 else [])
                for init in inits:
                    out.append({'d': d, 'k': k, 'R': 5 if d < 4 else 4, 'init': init})
    return out


def _tolist(a):
    return [x for x in (a.tolist() if hasattr(a, 'tolist') else list(a))]


def _flat(a):
    out = []
    for x in _tolist(a):
        if isinstance(x, list):
            out.extend(x)
        else:
            out.append(x)
    return out


def same_set(a, b):
    """a: list of plain ints (circuit), b: list of (possibly symbolic) ints (kernel); equal as sets with equal sizes (both lists are duplicate-free)."""
    if len(a) != len(b):
        return False
    conds = []
    for x, y in zip(sorted(a), b):
        conds.append(x == y)
    return s_and(*conds)


def run(ctx, params):
    d, k = params['d'], params['k']
    rounds = [ctx.int_(f'r{i}', lo=0, hi=params['R']) for i in range(k)]
    for i in range(k):
        for j in range(i):
            ctx.assume(rounds[i] != rounds[j])
    if params['init'] == 'zero':
        bits = [0] * d
    elif params['init'] == 'alt':
        bits = [i % 2 for i in range(d)]
    else:
        b = int(params['init'][4:])
        bits = [(b >> i) & 1 for i in range(d)]
    init = lib.initial_state(bits)
    desc = RepetitionCodeDescription.from_chain(length=2 * d - 1)
    # the constructor loops over the round counts and branches on them: concretise through the engine's enumeration
    conc_rounds = [int(r) for r in rounds]
    circuit = construct_repetition_code_multi_round_circuit(qec_cycles=conc_rounds, description=desc, initial_state=init)
    kernel = RepetitionExperimentKernel(rounds=rounds, heralded_initialization=True, qutrit_calibration_points=True,
                                        involved_data_qubit_ids=desc.data_qubit_ids, involved_ancilla_qubit_ids=desc.ancilla_qubit_ids, experiment_repetitions=1)
    ctx.observe('rounds', conc_rounds)
    for variant, c in (('constructed', circuit), ('unrolled', circuit.apply_modifiers())):
        for anc in desc.ancilla_qubit_ids:
            qi = desc.map_qubit_id_to_circuit_index(anc)
            got = {t: [int(x) for x in c.get_acquisition_indices(AcquisitionTag(qi, t))] for t in ('heralded', 'parity', 'final')}
            ctx.observe(f'{variant}.{anc.id}', got)
            k_her, k_par, k_zero = [], [], []
            for r, rc in zip(rounds, conc_rounds):
                k_her += _flat(kernel.get_heralded_cycle_acquisition_indices(anc, r))
                k_par += _flat(kernel.get_stabilizer_and_projected_cycle_acquisition_indices(anc, r))
                proj = _flat(kernel.get_projected_cycle_acquisition_indices(anc, r))
                if rc == 0:
                    # documented exception: no projected index from the kernel; the circuit's single 'final' ancilla measurement sits in the block's last slot
                    blk = [kk for kk in kernel._repetition_kernels if bool(kk.nr_repeated_parities == r)][0]
                    ctx.check('C13.zero_round_exception', len(proj) == 0, {'ancilla': anc.id, 'projected': proj})
                    k_zero.append(blk.stop_index)
            k_cal_h, k_cal_p = [], []
            for st in (StateKey.STATE_0, StateKey.STATE_1, StateKey.STATE_2):
                k_cal_h += _flat(kernel.get_heralded_calibration_acquisition_indices(anc, st))
                k_cal_p += _flat(kernel.get_projected_calibration_acquisition_indices(anc, st))
            info = {'variant': variant, 'ancilla': anc.id, 'rounds': conc_rounds, 'circuit': got, 'kernel_heralded': k_her + k_cal_h, 'kernel_parity': k_par,
                    'kernel_calibration': k_cal_p, 'zero_round_slots': k_zero}
            ctx.check('C13.heralded', same_set(got['heralded'], k_her + k_cal_h), info)
            ctx.check('C13.parity', same_set(got['parity'], k_par), info)
            ctx.check('C13.final', same_set(got['final'], sorted_sym(k_zero + k_cal_p, ctx)), info)
            # per calibration state: the state a calibration block prepares is read off the gates between its heralded and its final measurement
            from qce_circuit.structure.circuit_operations import DispersiveMeasure, Rx180, Rx180ef
            prepared, gates, last_her = {}, [], None
            for o in c.operations:
                if getattr(o, 'qubit_index', None) != qi:
                    continue
                if isinstance(o, DispersiveMeasure):
                    if o.acquisition_tag == 'heralded':
                        gates, last_her = [], o.acquisition_index
                    elif o.acquisition_tag == 'final' and last_her is not None and not any(bool(o.acquisition_index == z) for z in k_zero):
                        st = 2 if any(isinstance(x, Rx180ef) for x in gates) else (1 if any(isinstance(x, Rx180) for x in gates) else 0)
                        prepared.setdefault(st, []).append((last_her, o.acquisition_index))
                    elif o.acquisition_tag == 'parity':
                        last_her = None
                else:
                    gates.append(o)
            for st_key, st in ((StateKey.STATE_0, 0), (StateKey.STATE_1, 1), (StateKey.STATE_2, 2)):
                kh = _flat(kernel.get_heralded_calibration_acquisition_indices(anc, st_key))
                kp = _flat(kernel.get_projected_calibration_acquisition_indices(anc, st_key))
                mine = prepared.get(st, [])
                ctx.check('C13.calibration_state', len(mine) == 1 and len(kh) == 1 and len(kp) == 1 and s_and(mine[0][0] == kh[0], mine[0][1] == kp[0]) if mine else False,
                          dict(info, state=st, circuit_block=mine, kernel_heralded_state=kh, kernel_projected_state=kp))
            n_total = sum(len(v) for v in got.values())
            ctx.check('C13.count', n_total == kernel.kernel_cycle_length, dict(info, acquisitions=n_total, cycle_length=kernel.kernel_cycle_length))
    if 0 not in conc_rounds:
        ctx.check('C13.zero_round_exception', True)


def sorted_sym(xs, ctx):
    """Sort (possibly symbolic) integers; the comparisons are decided on this path (all round counts are concretised already)."""
    return sorted(xs, key=lambda v: int(v) if isinstance(v, Sym) else v)
