"""
C10 -- library circuits never double-book a qubit channel.

Real code executed symbolically: construct_repetition_code_circuit(_simplified), construct_repetition_code_multi_round_circuit,
construct_calibration_circuit and everything below them (get_circuit_qec_round(_with_dynamical_decoupling), heralded init, final
measurement, GlobalDecouplingWaitDurationStrategy), the whole scheduling stack, apply_modifiers.  The four global durations are
unbounded symbolic reals > 0 installed with the library's own temporary_override_get_registry_at; constructor inputs are enumerated.

Assertion, one disjunctive query per path (per-pair queries only to name the offenders): for every pair of listed operations with a
matching channel identifier (the library's own ChannelIdentifier.__eq__) whose durations are both non-zero, and for every
(barrier, operation on one of its qubits) pair regardless of length:  end_i <= start_j  or  end_j <= start_i.
"""
from __future__ import annotations

import itertools

from symx.core import Sym, s_and, s_or, s_implies
from . import common as cm
from . import lib
from qce_circuit.structure.circuit_operations import Barrier

PROPERTY = 'C10'
FUNCTIONS = ['construct_repetition_code_circuit', 'construct_repetition_code_circuit_simplified', 'construct_repetition_code_multi_round_circuit',
             'construct_calibration_circuit', 'get_circuit_qec_with_detectors', 'get_circuit_qec_round', 'get_circuit_qec_round_with_dynamical_decoupling',
             'get_circuit_qec_round_with_dynamical_decoupling_simplified', 'get_circuit_initialize_with_heralded', 'get_circuit_final_measurement',
             'get_circuit_calibrate_with_heralded', 'GlobalDecouplingWaitDurationStrategy.get_variable_duration', 'GlobalDurationStrategy.get_variable_duration',
             'temporary_override_get_registry_at', 'RelationLink.get_start_time', 'MultiRelationLink.reference_node/get_start_time',
             'CircuitCompositeOperation.duration/decomposed_operations/apply_modifiers_to_self/repeat/extend', 'ChannelIdentifier.__eq__']
BOUNDS = {'quick': "full constructor d in {2,3} x cycles 0..3 (chain from length, refocusing on), d=2 x cycles 0..2 refocusing off, simplified d in {2,3} x cycles 1..2, "
                   "qubit and qutrit calibration on 1..2 qubits, one sub-chain (3 data qubits) of Repetition9Code x cycles {0,2} and the same sub-chain as composite description with each single gate left out (1 cycle); as constructed and after apply_modifiers(); "
                   "all four global durations symbolic reals > 0",
          'thorough': "d <= 4, cycles 0..5, every contiguous sub-chain with 2..3 data qubits of the three shipped layouts x cycles {0,1,2,4}, composite descriptions (single gate exclusions, Repetition9Code, 3 data qubits, cycles 1..2), multi-round constructor with rounds "
                      "lists of length <= 2 over {0,1,2,4}"}
OUTSIDE = ["distances / cycle counts beyond the bound (the number of paths grows with the number of unrolled cycles)", "non-positive global durations",
           "user-defined descriptions other than from_chain / from_connectivity of shipped layouts"]
ASSUMPTIONS = ["memo caches start empty; the circuit is built inside the override and read there", "construction does not read times (checked: the concrete twin rebuilds from scratch)"]
REQUIRED_REACH = ['C10.no_overlap', 'C10.no_overlap.unrolled']
EXHAUSTIVE = {'quick': True, 'thorough': True}
JOB_OPTS = {'quick': dict(max_paths=4000, max_seconds=800, twin_every=4), 'thorough': dict(max_paths=40000, max_seconds=3000, twin_every=10)}


def jobs(tier, seed):
    out = []
    if tier == 'quick':
        for d in (2, 3):
            for cycles in range(0, 4):
                out.append({'spec': {'kind': 'full', 'd': d, 'cycles': cycles}})
        for cycles in range(0, 3):
            out.append({'spec': {'kind': 'full', 'd': 2, 'cycles': cycles, 'desc': {'chain': 3, 'refocus': False}}})
        for d in (2, 3):
            for cycles in (1, 2):
                out.append({'spec': {'kind': 'simplified', 'd': d, 'cycles': cycles}})
        for t in ('QUBIT', 'QUTRIT'):
            for qs in ([0], [0, 1]):
                out.append({'spec': {'kind': 'calib', 'qubits': qs, 'type': t}})
        sc = lib.sub_chains('Repetition9Code', 3, 3)[0]
        for cycles in (0, 2):
            out.append({'spec': {'kind': 'full', 'd': 3, 'cycles': cycles, 'desc': {'layout': 'Repetition9Code', 'involved': sc}}})
        # composite descriptions: the same sub-chain with one of its gates left out
        for a, b in zip(sc[:-1], sc[1:]):
            out.append({'spec': {'kind': 'full', 'd': 3, 'cycles': 1, 'desc': {'layout': 'Repetition9Code', 'involved': sc, 'exclude_edges': [[a, b]]}}})
    else:
        for d in (2, 3, 4):
            for cycles in range(0, 6):
                out.append({'spec': {'kind': 'full', 'd': d, 'cycles': cycles}})
                if cycles >= 1 and cycles <= 3:
                    out.append({'spec': {'kind': 'simplified', 'd': d, 'cycles': cycles}})
        for cycles in range(0, 4):
            out.append({'spec': {'kind': 'full', 'd': 3, 'cycles': cycles, 'desc': {'chain': 5, 'refocus': False}}})
        for t in ('QUBIT', 'QUTRIT'):
            for qs in ([0], [0, 1], [0, 1, 2]):
                out.append({'spec': {'kind': 'calib', 'qubits': qs, 'type': t}})
        for name in lib.LAYOUTS:
            for sc in lib.sub_chains(name, 2, 3):
                nd = (len(sc) + 1) // 2
                for cycles in (0, 1, 2, 4):
                    out.append({'spec': {'kind': 'full', 'd': nd, 'cycles': cycles, 'desc': {'layout': name, 'involved': sc}}})
                if name == 'Repetition9Code' and nd == 3:
                    for a, b in zip(sc[:-1], sc[1:]):
                        for cycles in (1, 2):
                            out.append({'spec': {'kind': 'full', 'd': nd, 'cycles': cycles, 'desc': {'layout': name, 'involved': sc, 'exclude_edges': [[a, b]]}}})
        for rounds in [[0], [1], [2], [4], [0, 1], [1, 0], [2, 1], [4, 2], [0, 2]]:
            out.append({'spec': {'kind': 'multi', 'd': 2, 'rounds': rounds, 'desc': {'chain': 3}}})
    for i, j in enumerate(out):
        if j['spec']['kind'] in ('full', 'simplified') and j['spec'].get('cycles', 0) in (1, 2) and j['spec'].get('d', 2) == 2 and 'desc' not in j['spec']:
            j['after_block'] = True
    return out


def overlap_obligation(ctx, ops, label, spec):
    data = []
    for o in ops:
        s, e, d = o.start_time, o.end_time, o.duration
        data.append((o, s, e, d, o.channel_identifiers, isinstance(o, Barrier)))
    clauses = {}
    for i, (oi, si, ei, di, ci, bi) in enumerate(data):
        for j in range(i + 1, len(data)):
            oj, sj, ej, dj, cj, bj = data[j]
            if not any(a == b for a in ci for b in cj):
                continue
            sep = s_or(ei <= sj, ej <= si)
            if bi or bj:
                cond = sep
            else:
                cond = s_implies(s_and(di > 0, dj > 0), sep)
            if cond is True:
                continue
            key = repr(cond)
            clauses.setdefault(key, (cond, i, j))
    conds = [c for c, _, _ in clauses.values()]
    ctx.note(f'{label}.pairs', len(clauses))
    ok = ctx.check(label, s_and(*conds), {'spec': spec, 'n_ops': len(ops), 'distinct_clauses': len(conds)})
    if not ok:
        # name an offending pair (per-pair queries)
        for cond, i, j in clauses.values():
            if not ctx.check(label + '.pair', cond, {'spec': spec, 'a': lib.sig(data[i][0]), 'b': lib.sig(data[j][0]), 'a_start': data[i][1], 'a_end': data[i][2],
                                                     'b_start': data[j][1], 'b_end': data[j][2]}):
                break


def run(ctx, params):
    g = cm.Globals(ctx, strict=True)
    with g.override():
        c = lib.build(params['spec'])
        ops = c.operations
        ctx.observe('n', len(ops))
        ctx.observe('duration', c.duration)
        overlap_obligation(ctx, ops, 'C10.no_overlap', params['spec'])
        u = c.apply_modifiers()
        uops = u.operations
        ctx.observe('n_unrolled', len(uops))
        ctx.observe('duration_unrolled', u.duration)
        overlap_obligation(ctx, uops, 'C10.no_overlap.unrolled', params['spec'])
    if params.get('after_block'):
        # "whatever the configured durations are": the duration block has ended, the ambient (default) durations are in force again; the
        # same operation objects are read once more (no new listing) and must be overlap-free under *these* durations
        overlap_obligation(ctx, ops, 'C10.no_overlap.after_duration_block', params['spec'])
        overlap_obligation(ctx, uops, 'C10.no_overlap.after_duration_block', params['spec'])
