"""
C11 -- flattening keeps the operations, and for library circuits the program.

Real code executed symbolically: DeclarativeCircuit.flatten, CircuitCompositeOperation.apply_flatten_to_self/decomposed_operations,
CircuitGraphBranch.add_to_graph (including its fall-backs for relations to operations that are no longer nodes), apply_modifiers,
construct_repetition_code_circuit / multi-round constructor, the scheduling stack, get_acquisition_indices, to_stim.
Durations are symbolic: the schedule clause is a solver-decided equality of start/end terms of the *same operation objects*
before and after flattening.
"""
from __future__ import annotations

import collections
import random

from symx.core import s_and
from symx import fakestim
from . import common as cm
from . import gen
from . import lib
from qce_circuit.structure.intrf_circuit_operation_composite import CircuitCompositeOperation
from qce_circuit.structure.intrf_acquisition_operation import IAcquisitionOperation

PROPERTY = 'C11'
FUNCTIONS = ['DeclarativeCircuit.flatten', 'CircuitCompositeOperation.apply_flatten_to_self', 'CircuitCompositeOperation.decomposed_operations',
             'CircuitGraphBranch.add_to_graph (fall-backs)', 'CircuitGraphBranch.get_corresponding_node', 'DeclarativeCircuit.apply_modifiers',
             'construct_repetition_code_circuit', 'construct_repetition_code_multi_round_circuit', 'AcquisitionRegistry.get_registry_at', 'to_stim']
BOUNDS = {'quick': "seeded implicitly sequenced programs (<= 3 steps per circuit, <= 7 leaves after unrolling, nesting <= 2, repetition 1..2 unrolled first in 70% of them) over {Wait q0/q1 ALL, Wait q0 MW, Rx180, CPhase, "
                   "Measure, Barrier}; library circuits d in {2,3} x cycles 0..3 (unrolled), one multi-round circuit; all durations symbolic",
          'thorough': "programs with <= 4 steps, <= 9 leaves after unrolling, nesting <= 3, repetition 1..3; library d <= 4, cycles 0..5, sub-chains of shipped layouts, multi-round rounds lists of length <= 2"}
OUTSIDE = ["programs with explicit relations (outside the statement's quantifier; flatten can raise RecursionError there)", "IEEE rounding off the dyadic grid"]
ASSUMPTIONS = ["memo caches start empty", "hash(Sym) constant / == decided by the solver"]
REQUIRED_REACH = ['C11.readable', 'C11.multiset', 'C11.no_composite', 'C11.idempotent.listing', 'C11.idempotent.schedule', 'C11.library.listing', 'C11.library.schedule',
                  'C11.library.acquisition', 'C11.library.stim']
EXHAUSTIVE = {'quick': False, 'thorough': False}
JOB_OPTS = {'quick': dict(max_paths=6000, max_seconds=600, twin_every=2), 'thorough': dict(max_paths=30000, max_seconds=2500, twin_every=5)}
TRUNCATION_OK = {'quick': 4, 'thorough': 20}   # sampled tier: this many random jobs may exhaust their path/time budget (listed as truncated in the evidence)

ALPHA = [['W', 0, 'ALL'], ['W', 1, 'ALL'], ['W', 0, 'MW'], ['G', 'Rx180', [0]], ['G', 'CPhase', [0, 1]], ['M', 1, 'a'], ['B', [0, 1]]]


def jobs(tier, seed):
    rng = random.Random(seed + 11)
    n, steps, depth, reps = (900, 3, 2, (1, 2)) if tier == 'quick' else (5000, 4, 3, (1, 2, 3))
    out = [{'deep': True, 'blocks': 12, 'pattern': 25}] + ([{'deep': True, 'blocks': 30, 'pattern': 25}] if tier != 'quick' else [])
    for _ in range(n):
        p = gen.random_program(rng, ALPHA, steps, depth, p_sub=0.4, p_rel=0.0, reps=reps, sub_rel=False)
        if gen.count_leaves(p) <= (7 if tier == 'quick' else 9):
            out.append({'prog': p, 'unroll': rng.random() < 0.7})
    # larger shapes (relation cycles / non-idempotence need several unrolled levels): durations drawn from a pool of 2 symbolic values
    for _ in range(140 if tier == 'quick' else 3000):
        p = gen.random_program(rng, ALPHA, 4, 2 if tier == 'quick' else 3, p_sub=0.45, p_rel=0.0, reps=(1, 2), sub_rel=False)
        if 8 <= gen.count_leaves(p) <= (14 if tier == 'quick' else 20):
            out.append({'prog': p, 'unroll': True, 'pool': 2})
    dmax, cmax = (3, 3) if tier == 'quick' else (4, 5)
    for d in range(2, dmax + 1):
        for cycles in range(0, cmax + 1):
            out.append({'library': {'kind': 'full', 'd': d, 'cycles': cycles}})
    out.append({'library': {'kind': 'multi', 'd': 2, 'rounds': [1, 0], 'desc': {'chain': 3}}})
    if tier != 'quick':
        for name in lib.LAYOUTS:
            for sc in lib.sub_chains(name, 2, 3):
                for cycles in (0, 3):
                    out.append({'library': {'kind': 'full', 'd': (len(sc) + 1) // 2, 'cycles': cycles, 'desc': {'layout': name, 'involved': sc}}})
        for rounds in ([0, 2], [2, 1], [3]):
            out.append({'library': {'kind': 'multi', 'd': 2, 'rounds': rounds, 'desc': {'chain': 3}}})
    return out


def has_composite(comp):
    return any(isinstance(k, CircuitCompositeOperation) for k in cm.composite_children(comp))


def run_deep(ctx, params):
    """One ground witness far inside the library's traversal limit: a nested program whose blocks are shallow but whose flattened graph is
    about 1 200 layers deep (12 blocks x 25 x [H, CZ, Rx90, Rx180, Barrier]); default durations, nothing symbolic."""
    import collections as _c
    from qce_circuit.language.declarative_circuit import DeclarativeCircuit
    from qce_circuit.structure.circuit_operations import Rx180, Rx90, Hadamard, CPhase, Barrier
    top = DeclarativeCircuit()
    for b in range(params['blocks']):
        block = DeclarativeCircuit()
        for i in range(params['pattern']):
            block.add(Hadamard(0)); block.add(CPhase(0, 1)); block.add(Rx90(1)); block.add(Rx180(0)); block.add(Barrier([0, 1]))
        top.add(block)
    before = [lib.sig(o) for o in top.operations]
    flat = top.flatten()
    ops1 = flat.operations
    after = [lib.sig(o) for o in ops1]
    info = {'spec': 'deep', 'n_before': len(before), 'n_after': len(after), 'blocks': params['blocks'], 'layers_about': 4 * params['pattern'] * params['blocks']}
    ctx.observe('n', len(after))
    ctx.check('C11.readable', True)
    ctx.check('C11.multiset', _c.Counter(before) == _c.Counter(after), info)
    ctx.check('C11.no_composite', len(flat.composite_operations) == 0, info)
    ops2 = flat.flatten().operations
    ctx.check('C11.idempotent.listing', len(ops2) == len(ops1) and all(a is b for a, b in zip(ops1, ops2)), info)


def run(ctx, params):
    if params.get('deep'):
        return run_deep(ctx, params)
    from qce_circuit.addon_stim.factory_manager import to_stim
    g = cm.Globals(ctx)
    with g.override():
        if 'library' in params:
            c = lib.build(params['library']).apply_modifiers()
            label = 'C11.library'
        else:
            built = cm.build(ctx, params['prog'], dur_pool=params.get('pool', 0))
            c = built.circuit.apply_modifiers() if params['unroll'] else built.circuit
            label = 'C11'
        ops = c.operations
        sig0 = [lib.sig(o) for o in ops]
        times0 = {id(o): (o.start_time, o.end_time) for o in ops}
        dur0 = c.duration
        acq0 = [(o.qubit_index, o.circuit_level_acquisition_index, o.acquisition_index) for o in ops if isinstance(o, IAcquisitionOperation)]
        stim0 = [(n, tuple(map(repr, t)), tuple(map(repr, a))) for n, t, a in fakestim.normal_form(to_stim(c))]
        ctx.observe('n', len(ops))
        def has_rep(p):
            return p.get('rep', 1) > 1 or any(st['k'][0] == 'S' and has_rep(st['k'][1]) for st in p['steps'])
        unrolled_rep = bool(params.get('unroll') and has_rep(params['prog'])) if 'prog' in params else True
        try:
            f = c.flatten()
            ops1 = f.operations
            [(o.start_time, o.end_time) for o in ops1]
            f.duration
        except RecursionError:
            # fingerprint of known finding F14: the circuit was unrolled first (its copies are chained by MultiRelationLinks)
            ctx.check('C11.readable', False, {'spec': params.get('library'), 'error': 'RecursionError (relation cycle) after flatten()', 'unrolled_repetition': unrolled_rep})
            return
        ctx.check('C11.readable', True)
        # fingerprint shared by F14 / F14b: the circuit was unrolled first and operations of the flat circuit still carry the group links
        # (MultiRelationLink) of the unrolled copies, against which every further flatten() re-links
        from qce_circuit.structure.intrf_circuit_operation import MultiRelationLink
        info = {'spec': params.get('library'), 'n_before': len(ops), 'n_after': len(ops1), 'unrolled_repetition': unrolled_rep,
                'group_links_survive_flatten': any(isinstance(o.relation_link, MultiRelationLink) for o in ops1)}
        same_objects = len(ops1) == len(ops) and set(map(id, ops1)) == set(map(id, ops))
        ctx.check('C11.multiset', same_objects and collections.Counter(lib.sig(o) for o in ops1) == collections.Counter(sig0), info)
        ctx.check('C11.no_composite', not has_composite(f.circuit_structure) and len(f.composite_operations) == 0, info)
        times1 = {id(o): (o.start_time, o.end_time) for o in ops1}
        for o in ops1:
            ctx.observe('t', list(times1[id(o)]))
        if same_objects:
            sched = s_and(*[s_and(times0[k][0] == times1[k][0], times0[k][1] == times1[k][1]) for k in times0])
        else:
            sched = False
        if 'library' in params:
            sig1 = [lib.sig(o) for o in ops1]
            first = next((i for i, (a, b) in enumerate(zip(sig0, sig1)) if a != b), None)
            no_shift = lambda xs: [x for x in xs if x[0] not in ('CoordinateShiftOperation', 'SHIFT_COORDS')]  # noqa: E731
            acq1 = [(o.qubit_index, o.circuit_level_acquisition_index, o.acquisition_index) for o in ops1 if isinstance(o, IAcquisitionOperation)]
            stim1 = [(n, tuple(map(repr, t)), tuple(map(repr, a))) for n, t, a in fakestim.normal_form(to_stim(f))]
            fp = {'same_multiset': collections.Counter(sig0) == collections.Counter(sig1), 'equal_without_coordinate_shift': no_shift(sig0) == no_shift(sig1),
                  'stim_equal_without_shift_coords': no_shift(stim0) == no_shift(stim1), 'same_acquisition_indices': sorted(acq0) == sorted(acq1)}
            ctx.check('C11.library.listing', sig0 == sig1, dict(info, first_difference=first, **fp))
            ctx.check('C11.library.schedule', s_and(sched, dur0 == f.duration), dict(info, duration_before=dur0, duration_after=f.duration))
            ctx.check('C11.library.acquisition', acq0 == acq1, dict(info, **fp))
            ctx.check('C11.library.stim', stim0 == stim1, dict(info, **fp))
        # flattening again changes nothing
        f2 = f.flatten()
        ops2 = f2.operations
        ctx.check('C11.idempotent.listing', len(ops2) == len(ops1) and all(a is b for a, b in zip(ops1, ops2)), info)
        times2 = [(o.start_time, o.end_time) for o in ops2]
        ctx.check('C11.idempotent.schedule', len(times2) == len(ops1) and s_and(*[s_and(times1[id(o)][0] == t[0], times1[id(o)][1] == t[1]) for o, t in zip(ops1, times2)]), info)
