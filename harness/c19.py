"""
C19 -- channel and identifier matching behave as overlap / identity relations.

Real code executed symbolically: ChannelIdentifier.__eq__, QubitIDObj.__eq__/__hash__, EdgeIDObj.__eq__/__hash__/contains/
get_connected_qubit_id, unique_in_order.  Qubit ids are unbounded symbolic integers, qubit names are symbolic names
(injective naming over unbounded integers), channels are enumerated (4 x 4), sequences have symbolic elements.
Stub: inside intrf_channel_identifier the builtin `hash` of a tuple and `str.__hash__` are uninterpreted functions (the edge hash
clause is about which *arguments* reach them, not about SipHash).
"""
from __future__ import annotations

import itertools

import z3

from symx.core import Sym, SymBool, s_and, s_or, s_not, s_implies
from qce_circuit.structure.intrf_circuit_operation import ChannelIdentifier, QubitChannel
from qce_circuit.connectivity import intrf_channel_identifier as ici
from qce_circuit.connectivity.intrf_channel_identifier import QubitIDObj, EdgeIDObj
from qce_circuit.utilities.array_manipulation import unique_in_order

PROPERTY = 'C19'
FUNCTIONS = ['ChannelIdentifier.__eq__', 'QubitIDObj.__eq__', 'QubitIDObj.__hash__', 'EdgeIDObj.__eq__', 'EdgeIDObj.__hash__',
             'EdgeIDObj.contains', 'EdgeIDObj.get_connected_qubit_id', 'unique_in_order']
BOUNDS = {'quick': "channel identifiers: ids unbounded symbolic ints, all 4x4(x4) channel kinds, pairs and triples; qubit/edge identifiers: "
                   "unbounded symbolic names, all equality patterns of 4 names; unique_in_order: sequences of length <= 5 of unbounded symbolic ints",
          'thorough': "as quick, sequences of length <= 8"}
OUTSIDE = ["sequences longer than the bound", "degenerate edges (both ends the same qubit) are outside the edge-equality claim",
           "unhashable / inconsistent-hash elements for unique_in_order (ChannelIdentifier itself has eq-compatible elements with different hashes)"]
ASSUMPTIONS = ["builtin hash of a tuple / of a str inside EdgeIDObj.__hash__ / QubitIDObj.__hash__ is an uninterpreted function",
               "set membership in unique_in_order is modelled with constant hashes, i.e. by semantic equality decided by the solver"]
REQUIRED_REACH = ['C19.match', 'C19.symmetric', 'C19.across_qubits', 'C19.qubit_eq', 'C19.qubit_hash', 'C19.edge_swap_eq', 'C19.edge_swap_hash',
                  'C19.edge_eq', 'C19.edge_contains', 'C19.unique.kept', 'C19.unique.dropped', 'C19.unique.order', 'C19.list_membership']
EXHAUSTIVE = {'quick': True, 'thorough': True}
CHANS = list(QubitChannel)


class SymName:
    """Symbolic qubit name: a pair (symbolic integer, symbolic case bit); two names are the same string iff both components are equal
    (injective naming).  Case-changing string methods map onto the case bit, so a comparison that ignores case is observable."""
    def __init__(self, v: Sym, hfun, c=0):
        self.v = v
        self.c = c
        self._h = hfun

    def __eq__(self, other):
        if isinstance(other, SymName):
            return s_and(self.v == other.v, self.c == other.c)
        return False

    def __ne__(self, other):
        r = self.__eq__(other)
        return (not r) if isinstance(r, bool) else ~r

    def __hash__(self):
        # explicit `.__hash__()` calls of the code under test get a term; see module docstring
        code = self.v * 2 + self.c
        return Sym(self.v.ctx, None, ast=self._h(code.z3() if isinstance(code, Sym) else z3.IntVal(int(code))), is_int=True)

    def __lt__(self, other):
        return s_or(self.v < other.v, s_and(self.v == other.v, self.c < other.c))

    def casefold(self):
        return SymName(self.v, self._h, 0)

    lower = casefold

    def upper(self):
        return SymName(self.v, self._h, 1)

    def __repr__(self):
        return f"name<{self.v},{self.c}>"


def names(ctx, n):
    if ctx.mode == 'conc':
        return [("Q" if ctx.int_(f'c{i}', lo=0, hi=1) else "q") + f"{ctx.int_(f'n{i}')}" for i in range(n)]
    hs = z3.Function('Hstr', z3.IntSort(), z3.IntSort())
    return [SymName(ctx.int_(f'n{i}'), hs, ctx.int_(f'c{i}', lo=0, hi=1)) for i in range(n)]


class _HashStub:
    """Installs an uninterpreted `hash` in the module of the code under test for the duration of a symbolic path."""
    def __init__(self, ctx):
        self.ctx = ctx

    def __enter__(self):
        if self.ctx.mode == 'conc':
            return self
        ht = z3.Function('Htuple2', z3.IntSort(), z3.IntSort(), z3.IntSort())
        ctx = self.ctx

        def sym_hash(x):
            if isinstance(x, tuple) and len(x) == 2 and any(isinstance(e, Sym) for e in x):
                a, b = (e if isinstance(e, Sym) else Sym(ctx, {}, __import__('fractions').Fraction(int(e)), is_int=True) for e in x)
                return Sym(ctx, None, ast=ht(a.z3(), b.z3()), is_int=True)
            return hash(x)
        ici.hash = sym_hash
        return self

    def __exit__(self, *a):
        if 'hash' in ici.__dict__:
            del ici.hash
        return False


def jobs(tier, seed):
    out = [{'part': 'channel', 'ca': a, 'cb': b} for a in range(4) for b in range(4)]
    out += [{'part': 'triple', 'ca': a, 'cb': b, 'cc': c} for a in range(4) for b in range(4) for c in range(4)]
    out += [{'part': 'qubit'}, {'part': 'edge'}]
    nmax = 5 if tier == 'quick' else 8
    out += [{'part': 'unique', 'n': n} for n in range(0, nmax + 1)]
    return out


def run(ctx, params):
    part = params['part']
    if part == 'channel':
        a_id, b_id = ctx.int_('a'), ctx.int_('b')
        ca, cb = CHANS[params['ca']], CHANS[params['cb']]
        a, b = ChannelIdentifier(a_id, ca), ChannelIdentifier(b_id, cb)
        r = (a == b)
        r2 = (b == a)
        ctx.observe('a==b', r)
        ctx.observe('b==a', r2)
        chan_ok = (ca == cb) or ca == QubitChannel.ALL or cb == QubitChannel.ALL
        expected = s_and(a_id == b_id, chan_ok)
        ctx.check('C19.match', _iff(expected, r), {'a': a_id, 'b': b_id, 'ca': ca.name, 'cb': cb.name, 'got': r})
        ctx.check('C19.symmetric', r == r2, {'a': a_id, 'b': b_id, 'ca': ca.name, 'cb': cb.name})
        ctx.check('C19.across_qubits', s_implies(a_id != b_id, not r), {'a': a_id, 'b': b_id, 'ca': ca.name, 'cb': cb.name})
        ctx.check('C19.not_other_type', (a == (a_id, ca)) is False and (a == None) is False)  # noqa: E711
        return
    if part == 'triple':
        ids = [ctx.int_(n) for n in 'abc']
        cs = [CHANS[params['ca']], CHANS[params['cb']], CHANS[params['cc']]]
        x, y, z = (ChannelIdentifier(i, c) for i, c in zip(ids, cs))
        # list membership (what get_leaf_at_any relies on): x in [y, z]  <=>  x matches y or x matches z
        got = x in [y, z]
        ctx.observe('in', got)

        def m(i, j):
            return s_and(ids[i] == ids[j], (cs[i] == cs[j]) or cs[i] == QubitChannel.ALL or cs[j] == QubitChannel.ALL)
        ctx.check('C19.list_membership', _iff(s_or(m(0, 1), m(0, 2)), got), {'ids': ids, 'chans': [c.name for c in cs], 'got': got})
        return
    if part == 'qubit':
        with _HashStub(ctx):
            n0, n1 = names(ctx, 2)
            q0, q1 = QubitIDObj(n0), QubitIDObj(n1)
            r = (q0 == q1)
            ctx.observe('q0==q1', r)
            same = (n0 == n1)
            ctx.check('C19.qubit_eq', _iff(same, r), {'n0': _nv(n0), 'n1': _nv(n1), 'got': r})
            ctx.check('C19.qubit_eq_sym', (q1 == q0) == r)
            h0, h1 = q0.__hash__(), q1.__hash__()
            ctx.check('C19.qubit_hash', s_implies(same, h0 == h1), {'n0': _nv(n0), 'n1': _nv(n1)})
            ctx.check('C19.qubit_other_type', (q0 == n0) is False or isinstance(n0, str) and (q0 == n0) is False)
        return
    if part == 'edge':
        with _HashStub(ctx):
            a, b, c, d = names(ctx, 4)
            qa, qb, qc, qd = (QubitIDObj(x) for x in (a, b, c, d))
            e_ab, e_ba, e_cd = EdgeIDObj(qa, qb), EdgeIDObj(qb, qa), EdgeIDObj(qc, qd)
            r_swap = (e_ab == e_ba)
            ctx.observe('swap', r_swap)
            ctx.check('C19.edge_swap_eq', r_swap is True or r_swap == True, {'a': _nv(a), 'b': _nv(b)})  # noqa: E712
            ctx.check('C19.edge_swap_hash', e_ab.__hash__() == e_ba.__hash__(), {'a': _nv(a), 'b': _nv(b)})
            r = (e_ab == e_cd)
            ctx.observe('ab==cd', r)
            nondeg = s_and(a != b, c != d)
            same_pair = s_or(s_and(a == c, b == d), s_and(a == d, b == c))
            info = {'a': _nv(a), 'b': _nv(b), 'c': _nv(c), 'd': _nv(d), 'got': r}
            ctx.check('C19.edge_eq', s_implies(nondeg, _iff(same_pair, r)), info)
            ctx.check('C19.edge_eq_sym', s_implies(nondeg, (e_cd == e_ab) == r), info)
            ctx.check('C19.edge_eq_hash', s_implies(s_and(nondeg, r), e_ab.__hash__() == e_cd.__hash__()), info)
            got_c = e_ab.contains(qc)
            ctx.observe('contains', got_c)
            ctx.check('C19.edge_contains', _iff(s_or(c == a, c == b), got_c), info)
            if got_c:
                other = e_ab.get_connected_qubit_id(qc)
                ctx.check('C19.edge_connected', s_or(s_and(c == a, other == qb), s_and(c == b, other == qa)), info)
        return
    if part == 'unique':
        # elements that are equal exactly when their keys are, but remain distinguishable (like EdgeIDObj(a, b) and EdgeIDObj(b, a)):
        # the occurrence index travels with the element, in the symbolic run and in the concrete replay alike
        n = params['n']
        seq = [_El(ctx.int_(f's{i}'), i) for i in range(n)]
        out = unique_in_order(seq)
        ctx.observe('len', len(out))
        pos = [o.i if isinstance(o, _El) else -1 for o in out]
        ctx.observe('kept_positions', pos)
        ctx.check('C19.unique.order', all(p >= 0 for p in pos) and pos == sorted(pos) and len(set(pos)) == len(pos), {'positions': pos})
        kept = set(pos)
        ctx.check('C19.unique.kept', s_and(*[s_and(*[seq[j].k != seq[i].k for j in range(i)]) for i in kept if i >= 0]), {'seq': [e.k for e in seq], 'kept': sorted(kept)})
        ctx.check('C19.unique.dropped', s_and(*[s_or(*[seq[j].k == seq[i].k for j in range(i)]) for i in range(n) if i not in kept]),
                  {'seq': [e.k for e in seq], 'kept': sorted(kept)})
        return
    raise ValueError(part)


class _El:
    """Sequence element for unique_in_order: equality and hash by key, identity by occurrence index."""
    def __init__(self, k, i):
        self.k, self.i = k, i

    def __eq__(self, other):
        return isinstance(other, _El) and (self.k == other.k)

    def __ne__(self, other):
        return not isinstance(other, _El) or (self.k != other.k)

    def __hash__(self):
        return hash(self.k)

    def __repr__(self):
        return f"El({self.k}#{self.i})"


def _nv(n):
    return n.v if isinstance(n, SymName) else n


def _iff(a, b):
    if isinstance(a, bool) and isinstance(b, bool):
        return a == b
    if isinstance(a, bool):
        return b if a else s_not(b)
    if isinstance(b, bool):
        return a if b else s_not(a)
    return a == b
