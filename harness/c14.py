"""
C14 -- noise dressing only adds noise, with the configured strengths.

Real code executed symbolically: apply_noise, NoiseFactoryManager / StimNoiseDresserFactoryManager.construct, MeasurementNoiseDresserFactory.construct,
PauliAdditiveCircuitNoiseFactory.construct / split_instruction_blocks / get_pauli_error, IndexedNoiseSettings.get_noise_settings / get_operation_duration,
NoiseSettings.get_noise_settings / get_default_noise_settings, OperationDurationParameters.duration_mapper, extract_instruction_targets / extract_all_targets.
T1, T2 (> 0), assignment errors (in [0,1]) and the four operation durations (>= 0), default and per qubit, are symbolic reals.
Stubs: the dresser writes into fakestim on symbolic paths (real stim in the twin); `np.exp(x)` inside get_pauli_error is an uninterpreted value
E(x) in (0, 1] (same argument term -> same value), which is all the range clauses need; the float() casts of the settings dataclasses are bypassed by
installing the symbolic values with object.__setattr__ (the mechanism typecast_dataclass_fields itself uses).
"""
from __future__ import annotations

import random

import z3

from symx import fakestim
from symx.core import Sym, s_and, s_or
from . import common as cm
from . import gen
from . import lib
from qce_circuit.connectivity.intrf_channel_identifier import QubitIDObj
from qce_circuit.addon_stim import noise_settings_manager as nsm
from qce_circuit.addon_stim.noise_factories import factory_pauli_noise as fpn

PROPERTY = 'C14'
FUNCTIONS = ['apply_noise', 'StimNoiseDresserFactoryManager.construct', 'MeasurementNoiseDresserFactory.construct', 'PauliAdditiveCircuitNoiseFactory.construct',
             'PauliAdditiveCircuitNoiseFactory.split_instruction_blocks', 'PauliAdditiveCircuitNoiseFactory.get_pauli_error', 'IndexedNoiseSettings.get_noise_settings',
             'IndexedNoiseSettings.get_operation_duration', 'NoiseSettings.get_noise_settings/get_default_noise_settings', 'OperationDurationParameters.duration_mapper',
             'extract_instruction_targets', 'extract_all_targets', 'to_stim']
BOUNDS = {'quick': "input circuits: 220 seeded random exporter programs (all supported gate kinds, nesting <= 1, counts <= 2, <= 5 leaves) and library circuits d=2, cycles 0..1 (default settings); "
                   "noise settings: default + per-qubit (qubits 0 and 2 mapped to identifiers with individual settings, qubit 1 unmapped) T1, T2 > 0, assignment error in [0,1], "
                   "four operation durations >= 0, all symbolic",
          'thorough': "800 programs with <= 20 leaves, library d <= 3, cycles 0..4, three index->identifier maps"}
OUTSIDE = ["exp is not computed: E(x) is only known to lie in (0, 1]", "Stim's own validation of probabilities (real stim runs in the twin)", "NoiseSettings read from the yaml file (constructed directly)"]
ASSUMPTIONS = ["fakestim stands for stim on symbolic paths (twin: real stim)", "np.exp stub: uninterpreted, value in (0,1] for the non-positive arguments that occur (t >= 0, T > 0)",
               "documented operation durations: M -> duration_mz, CZ -> duration_cz, H -> duration_h, X -> duration_x, everything else 0"]
REQUIRED_REACH = ['C14.strip', 'C14.range', 'C14.sum', 'C14.assignment', 'C14.idle_channel', 'C14.idle_structure']
EXHAUSTIVE = {'quick': False, 'thorough': False}
JOB_OPTS = {'quick': dict(max_paths=4000, max_seconds=600, twin_every=3), 'thorough': dict(max_paths=4000, max_seconds=2000, twin_every=4)}
TRUNCATION_OK = {'quick': 4, 'thorough': 20}   # sampled tier: this many random jobs may exhaust their path/time budget (listed as truncated in the evidence)

ALPHA = [['G', 'Reset', [0]], ['G', 'Hadamard', [0]], ['G', 'Hadamard', [2]], ['G', 'Identity', [1]], ['G', 'CPhase', [0, 1]], ['G', 'CPhase', [1, 2]], ['M', 0, 'a'], ['M', 1, 'a'], ['M', 2, 'b'],
         ['G', 'Rx180', [0]], ['G', 'Rx180', [2]], ['G', 'Rx90', [1]], ['G', 'Ry90', [1]], ['G', 'Rym90', [1]], ['B', [0, 1, 2]], ['B', [0, 1]], ['W', 0, 'ALL'], ['SHIFT', [0, 1, 2], 0, 1]]
DUR_OF = {'M': 'mz', 'CZ': 'cz', 'H': 'h', 'X': 'x'}


def jobs(tier, seed):
    rng = random.Random(seed + 14)
    n, leaves = (220, 5) if tier == 'quick' else (1500, 8)
    out = []
    # adjacent measurements are fused by stim into one multi-target instruction: error patterns a,b,a / a,a,b / a,b,c along its targets
    for meas in ([0, 1, 2], [2, 1, 0], [0, 2, 1], [1, 0, 2]):
        for mp in ('a', 'b', 'd', 'c'):
            out.append({'prog': {'steps': [{'k': ['G', 'Hadamard', [0]], 'rel': None}] + [{'k': ['M', q, 'a'], 'rel': None} for q in meas]}, 'map': mp})
    while len(out) < n:
        p = gen.random_program(rng, ALPHA, 3, 1, p_sub=0.25, p_rel=0.0, reps=(1, 2), sub_rel=False)
        if 2 <= gen.count_leaves(p) <= leaves:
            out.append({'prog': p, 'map': rng.choice(['a', 'a', 'b'])})
    dmax, cmax = (2, 1) if tier == 'quick' else (3, 3)
    for d in range(2, dmax + 1):
        for cycles in range(0, cmax + 1):
            out.append({'library': {'kind': 'full', 'd': d, 'cycles': cycles}, 'map': 'c'})
    out.append({'library': {'kind': 'full', 'd': 2, 'cycles': 0}, 'map': 'd'})   # per-qubit settings for the middle qubit only   # library circuits: default settings for every qubit
    return out


class _ExpStub:
    """
    np inside factory_pauli_noise: exp(-t / T) -> E(-t, T), an uninterpreted binary function (so that equal arguments give equal values:
    congruence is decided by the solver) with the only facts the clauses need: 0 < E <= 1 for the non-positive exponents that occur.
    """
    def __init__(self, ctx, real_np):
        self.ctx, self.real_np, self.seen = ctx, real_np, set()
        self.E = z3.Function('E', z3.RealSort(), z3.RealSort(), z3.RealSort())

    def exp(self, x):
        if not isinstance(x, Sym):
            return self.real_np.exp(x)
        e = x.z3()
        if z3.is_app(e) and e.decl().kind() == z3.Z3_OP_DIV:
            num, den = e.children()
        else:
            num, den = e, z3.RealVal(1)
        app = self.E(num, den)
        if app.get_id() not in self.seen:
            self.seen.add(app.get_id())
            from symx.core import SymBool
            self.ctx.assume(SymBool(self.ctx, expr=z3.And(app > 0, app <= 1)))
        return Sym(self.ctx, None, ast=app, is_int=False)

    def __getattr__(self, name):
        return getattr(self.real_np, name)


def make_settings(ctx, which):
    r = lambda name, **kw: ctx.real(name, **kw)  # noqa: E731
    dur = nsm.OperationDurationParameters()
    for f in ('mz', 'cz', 'h', 'x'):
        object.__setattr__(dur, f'duration_{f}', r(f'dur_{f}', lo=0))
    default = dict(t1=r('t1', lo=0, lo_strict=True), t2=r('t2', lo=0, lo_strict=True), err=r('err', lo=0, hi=1))
    individual = {}
    for name in ('QA', 'QB'):
        p = nsm.QubitNoiseModelParameters()
        object.__setattr__(p, 't1', r(f't1_{name}', lo=0, lo_strict=True))
        object.__setattr__(p, 't2', r(f't2_{name}', lo=0, lo_strict=True))
        object.__setattr__(p, 'assignment_error', r(f'err_{name}', lo=0, hi=1))
        individual[QubitIDObj(name)] = p
    ns = nsm.NoiseSettings(individual_noise=individual, operation_durations=dur)
    if ctx.mode == 'sym':
        # counterexamples are preferably reported with exponents of moderate size (exp() of a float underflows to exactly 0 otherwise)
        for name, (sort, _, _) in list(ctx.vars.items()):
            if name.startswith('dur_'):
                ctx.hints.append(ctx._z3vars[name] <= 1)
            elif name.startswith('t1') or name.startswith('t2'):
                ctx.hints.append(z3.And(ctx._z3vars[name] >= z3.RealVal('1/4'), ctx._z3vars[name] <= 4))
    object.__setattr__(ns, 'default_t1', default['t1'])
    object.__setattr__(ns, 'default_t2', default['t2'])
    object.__setattr__(ns, 'default_assignment_error', default['err'])
    index_map = {'a': {0: QubitIDObj('QA'), 2: QubitIDObj('QB')}, 'b': {0: QubitIDObj('QB'), 1: QubitIDObj('QA'), 2: QubitIDObj('QC')}, 'c': {}, 'd': {1: QubitIDObj('QA')}}[which]
    params_of = {}
    for q in range(0, 8):
        qid = index_map.get(q)
        if qid is not None and qid in individual:
            p = individual[qid]
            params_of[q] = (p.t1, p.t2, p.assignment_error)
        else:
            params_of[q] = (default['t1'], default['t2'], default['err'])
    durs = {k: getattr(dur, f'duration_{v}') for k, v in DUR_OF.items()}
    return ns, index_map, params_of, durs


def clamp01(x):
    lo = x if bool(x >= 0) else 0.0
    return lo if bool(lo <= 1) else 1.0


def expected_pauli(stub, t, t1, t2):
    if bool(t == 0):
        return 0, 0, 0
    u, v = stub.exp(-t / t1), stub.exp(-t / t2)
    px = clamp01(0.25 * (1 - u))
    pz = clamp01(0.5 * (1 - v) - 0.25 * (1 - u))
    return px, px, pz


def units_of(circuit):
    """(name, targets, args) per instruction of a flat circuit, without undoing fusing (instruction level)."""
    out = []
    for ins in fakestim._expand(circuit):
        tg = [t.value if not getattr(t, 'is_measurement_record_target', False) else ('rec', t.value) for t in ins.targets_copy()]
        out.append((ins.name, tg, list(ins.gate_args_copy())))
    return out


def run(ctx, params):
    from qce_circuit.addon_stim.factory_manager import to_stim
    from qce_circuit.addon_stim.noise_factory_manager import apply_noise
    sym = ctx.mode == 'sym'
    ns, index_map, params_of, durs = make_settings(ctx, params['map'])
    if 'library' in params:
        circuit = lib.build(params['library'])
    else:
        circuit = cm.build(ctx, params['prog']).circuit
    import numpy as real_np
    stub = _ExpStub(ctx, real_np)
    mods = fakestim._MODULES + ['qce_circuit.addon_stim.intrf_noise_factory', 'qce_circuit.addon_stim.noise_factory_manager',
                                'qce_circuit.addon_stim.noise_factories.factory_measurement_noise', 'qce_circuit.addon_stim.noise_factories.factory_pauli_noise']
    saved_modules = list(fakestim._MODULES)
    fakestim._MODULES[:] = mods
    fpn.np = stub
    orig_cast = nsm.typecast_dataclass_fields
    if sym:
        nsm.typecast_dataclass_fields = lambda instance: None   # the cast is the identity on floats, which the symbolic reals stand for
    try:
        with fakestim.installed(sym):
            clean = to_stim(circuit)
            noisy = apply_noise(circuit=clean, qubit_index_map=index_map, noise_settings=ns)
            clean_units = fakestim.normal_form(clean.flattened())
            noisy_instr = fakestim.normal_form(noisy)
    finally:
        fpn.np = real_np
        nsm.typecast_dataclass_fields = orig_cast
        fakestim._MODULES[:] = saved_modules
    ctx.observe('n_clean', len(clean_units))
    ctx.observe('n_noisy', len(noisy_instr))
    # ---- 1. stripping the noise gives back the flattened input ------------------------------------------------------------------
    stripped = []
    for name, tg, args in noisy_instr:
        if name == 'PAULI_CHANNEL_1':
            continue
        stripped.append((name, tg, [] if name == 'M' else args))
    class _C:  # minimal circuit wrapper for normal_form
        def __init__(self, items): self.items = items
        def __iter__(self): return iter(self.items)
    stripped_nf = fakestim.normal_form(_C([fakestim.CircuitInstruction(n, [fakestim.GateTarget('rec', t[1]) if isinstance(t, tuple) else t for t in tg], a) for n, tg, a in stripped]))
    fr = lambda us: [(n, tuple(map(repr, t)), tuple(map(repr, a))) for n, t, a in us]  # noqa: E731
    first = next((i for i, (x, y) in enumerate(zip(fr(stripped_nf), fr(clean_units))) if x != y), None)
    ctx.check('C14.strip', fr(stripped_nf) == fr(clean_units), {'first_difference': first, 'n_stripped': len(stripped_nf), 'n_input': len(clean_units)})
    # ---- 2. ranges; 3. assignment errors ------------------------------------------------------------------------------------------
    rng_conds, sum_conds, asg = [], [], []
    for name, tg, args in noisy_instr:
        if name == 'PAULI_CHANNEL_1':
            rng_conds += [s_and(a >= 0, a <= 1) for a in args]
            sum_conds.append(args[0] + args[1] + args[2] <= 1)
        elif name == 'M':
            q = tg[0]
            want = params_of[q][2]
            asg.append(s_and(len(args) == 1, len(tg) == 1) if len(args) != 1 else (args[0] == want))
            rng_conds.append(s_and(args[0] >= 0, args[0] <= 1) if args else False)
    ctx.check('C14.range', s_and(*rng_conds), {'n': len(rng_conds)})
    ctx.check('C14.sum', s_and(*sum_conds), {'n': len(sum_conds)})
    ctx.check('C14.assignment', s_and(*asg), {'n_measurements': len(asg), 'errors': [a[2] for a in noisy_instr if a[0] == 'M'][:6]})
    # ---- 4. idle channel around every TICK-delimited block ----------------------------------------------------------------------------
    # The non-channel units of the noisy circuit equal the clean units (clause 1).  Channels are grouped by the gap they sit in:
    # gap g = between clean unit g-1 and clean unit g.  Expected: before block 0 one channel per qubit (lead of block 0); between block
    # b-1 and block b two per qubit (trail of b-1, then lead of b); after the last block one per qubit (its trail).
    qubits = sorted({t for n, tg, a in clean_units for t in tg if not isinstance(t, tuple)})
    gaps = {}
    g = 0
    for name, tg, args in noisy_instr:
        if name == 'PAULI_CHANNEL_1':
            gaps.setdefault(g, []).append((tg[0], args))
        else:
            g += 1
    blocks, cur = [], []
    for u in clean_units:
        cur.append(u)
        if u[0] == 'TICK':
            blocks.append(cur)
            cur = []
    blocks.append(cur)
    expected_of = []
    for blk in blocks:
        tmax = 0
        for nme in [x[0] for x in blk]:
            dv = durs.get(nme, 0)
            tmax = dv if bool(dv > tmax) else tmax
        expected_of.append({q: expected_pauli(stub, tmax * 0.5, params_of[q][0], params_of[q][1]) for q in qubits})
    boundaries = [0]
    for blk in blocks:
        boundaries.append(boundaries[-1] + len(blk))
    ok_struct, conds, details = True, [], []
    want_gaps = {}
    for b in range(len(blocks)):
        want_gaps.setdefault(boundaries[b], []).append(('lead', b))
        want_gaps.setdefault(boundaries[b + 1], []).append(('trail', b))
    if sorted(gaps) != sorted(k for k in want_gaps) and qubits:
        ok_struct = False
        details.append({'channel_gaps': sorted(gaps), 'expected_gaps': sorted(want_gaps)})
    for gpos, roles in sorted(want_gaps.items()):
        roles = sorted(roles, key=lambda r: (r[1], 0 if r[0] == 'lead' else 1))   # trail of b-1 precedes lead of b
        got = gaps.get(gpos, [])
        for q in qubits:
            mine = [a for (qq, a) in got if qq == q]
            if len(mine) != len(roles):
                ok_struct = False
                details.append({'gap': gpos, 'qubit': q, 'channels_found': len(mine), 'expected': len(roles)})
                continue
            for (role, b), a in zip(roles, mine):
                ex = expected_of[b][q]
                c_ = s_and(*[x == y for x, y in zip(a, ex)])
                conds.append(c_)
                if c_ is False:
                    details.append({'gap': gpos, 'qubit': q, 'role': role, 'block': b, 'got': a, 'expected': list(ex), 'names': [x[0] for x in blocks[b]]})
    blocks_with_m = [bi for bi, blk in enumerate(blocks) if any(x[0] == 'M' for x in blk)]
    only_m_blocks_differ = None
    ctx.check('C14.idle_structure', ok_struct, {'details': details[:4]})
    # fingerprint helper for the measurement-duration defect: with duration_mz := 0 in the oracle every channel matches
    durs0 = dict(durs, M=0)
    conds0 = []
    for gpos, roles in sorted(want_gaps.items()):
        roles = sorted(roles, key=lambda r: (r[1], 0 if r[0] == 'lead' else 1))
        got = gaps.get(gpos, [])
        for q in qubits:
            mine = [a for (qq, a) in got if qq == q]
            if len(mine) != len(roles):
                continue
            for (role, b), a in zip(roles, mine):
                tmax = 0
                for nme in [x[0] for x in blocks[b]]:
                    dv = durs0.get(nme, 0)
                    tmax = dv if bool(dv > tmax) else tmax
                ex = expected_pauli(stub, tmax * 0.5, params_of[q][0], params_of[q][1])
                conds0.append(s_and(*[x == y for x, y in zip(a, ex)]))
    ctx.check('C14.idle_channel', s_and(*conds), {'details': details[:4], 'n_blocks': len(blocks), 'blocks_with_measurement': blocks_with_m[:6], 'durations': durs,
                                                   'matches_when_measurement_duration_ignored': s_and(*conds0)})
