"""
C18 -- drawing shows the schedule and leaves the circuit alone.

Real code executed symbolically: plot_circuit (both modes; its temporary_override_get_registry_at / clear_lru_cache handling),
construct_visual_description, reorder_indices, VisualCircuitDescription.get_transform_constructor / get_operation_draw_components /
get_highlight_draw_components / get_channel_bar / get_channel_header, TransformConstructor.identifier_to_pivot/width/height and the
draw-component factories (construction of the components on symbolic times, no rendering).  Stub: on symbolic paths the matplotlib
renderer plot_circuit_description is replaced by "construct every draw component and read its transform"; the concrete twin renders
with matplotlib (Agg).  Fixed durations and the global durations in force outside the drawing are symbolic.

Oracle for positions: the start times of a freshly built identical circuit read under the drawing's durations
(VISUALIZATION_DURATION_REGISTRY in compact mode, the surrounding global durations otherwise); rows from the requested channel order.
"""
from __future__ import annotations

import itertools
import random

from symx.core import Sym, s_and, s_or
from . import common as cm
from . import gen
from qce_circuit.structure.intrf_acquisition_operation import IAcquisitionOperation
from qce_circuit.structure.registry_duration import temporary_override_get_registry_at

PROPERTY = 'C18'
FUNCTIONS = ['plot_circuit', 'construct_visual_description', 'reorder_indices', 'VisualCircuitDescription.get_transform_constructor', 'VisualCircuitDescription.get_operation_draw_components',
             'VisualCircuitDescription.get_highlight_draw_components', 'VisualCircuitDescription.get_channel_header/get_channel_bar', 'TransformConstructor.identifier_to_pivot',
             'TransformConstructor.identifier_to_width', 'BulkDrawComponentFactoryManager.construct', 'DrawComponentFactoryManager.construct', 'the 21 draw-component factories (construction)',
             'temporary_override_get_registry_at', 'clear_lru_cache', 'DeclarativeCircuit.occupied_qubit_channels']
BOUNDS = {'quick': "400 seeded random programs over the drawable kinds (<= 3 steps per circuit, <= 6 leaves, nesting <= 1, repetition 1..2, half of them unrolled before drawing) x channel order in {none, a random "
                   "permutation, a random prefix} x label map {none, partial} x compact / non-compact; one unknown-channel order per program; durations symbolic",
          'thorough': "3000 programs, <= 4 steps, <= 9 leaves, nesting <= 2"}
OUTSIDE = ["rasterisation and typography (twin only)", "plain TwoQubitOperation / user-defined kinds without a draw factory", "IEEE rounding off the dyadic grid"]
ASSUMPTIONS = ["renderer stub on symbolic paths (the components are constructed by the real factories and their transforms are read)", "memo caches start empty"]
REQUIRED_REACH = ['C18.position.x', 'C18.position.row', 'C18.components.complete', 'C18.width', 'C18.components', 'C18.unchanged.operations', 'C18.unchanged.retained', 'C18.unchanged.schedule', 'C18.unchanged.acquisition', 'C18.unknown_channel']
EXHAUSTIVE = {'quick': False, 'thorough': False}
JOB_OPTS = {'quick': dict(max_paths=2500, max_seconds=600, twin_every=2), 'thorough': dict(max_paths=20000, max_seconds=2000, twin_every=4)}
TRUNCATION_OK = {'quick': 4, 'thorough': 20}   # sampled tier: this many random jobs may exhaust their path/time budget (listed as truncated in the evidence)

ALPHA = [['W', 0, 'ALL'], ['W', 3, 'MW'], ['G', 'Rx180', [0]], ['G', 'Ry90', [5]], ['G', 'Reset', [3]], ['G', 'CPhase', [0, 3]], ['G', 'CPhase', [5, 3]], ['G', 'CPhase', [5, 7]], ['M', 5, 'a'], ['M', 0, 'b'], ['B', [0, 3]],
         ['B', [0, 3, 5]], ['G', 'VirtualPark', [3]], ['V', 'VirtualVacant', 5, 'FL'], ['V', 'VirtualEmpty', 0, 'ALL'], ['T', 'VirtualTwoQubitVacant', [0, 5], 'FL'], ['G', 'Hadamard', [5]],
         ['G', 'Identity', [0]], ['G', 'Rx180ef', [3]], ['G', 'VirtualPhase', [5]], ['G', 'Rphi90', [0]]]


def jobs(tier, seed):
    rng = random.Random(seed + 18)
    n, steps, leaves, depth = (400, 3, 6, 1) if tier == 'quick' else (3000, 4, 9, 2)
    out = []
    # hand-picked shapes: a repeated block whose copies are chained through a MultiRelationLink and whose length depends on a global duration
    for inner in ([['W', 3, 'MW'], ['G', 'Reset', [3]]], [['G', 'Reset', [3]], ['G', 'VirtualPark', [3]]], [['W', 0, 'ALL'], ['M', 0, 'b']]):
        prog = {'steps': [{'k': ['S', {'steps': [{'k': k, 'rel': None} for k in inner], 'rep': 2}], 'rel': None}]}
        for compact in (True, False):
            out.append({'prog': prog, 'order': None, 'labels': None, 'compact': compact, 'unroll': True})
    # simultaneous two-qubit gates on disjoint pairs whose start times coincide at different relation depths (one long operation before
    # one of them): the bulk factory groups two-qubit gates by start time
    cz_a, cz_b = ['G', 'CPhase', [5, 7]], ['G', 'CPhase', [0, 3]]
    for head in (['G', 'Reset', [3]], ['M', 0, 'b'], ['W', 0, 'ALL']):
        for n_chain in (2, 3):
            for tail_first in (False, True):
                chain = [{'k': cz_a, 'rel': None} for _ in range(n_chain)]
                steps_ = [{'k': head, 'rel': None}] + ([{'k': cz_b, 'rel': None}] + chain if tail_first else chain + [{'k': cz_b, 'rel': None}])
                for compact in (True, False):
                    out.append({'prog': {'steps': steps_}, 'order': None, 'labels': None, 'compact': compact, 'unroll': False})
    n += len(out)
    while len(out) < n:
        p = gen.random_program(rng, ALPHA, steps, depth, types='FSE', p_sub=0.25, p_rel=0.3, reps=(1, 2), sub_rel=False)
        if not (1 <= gen.count_leaves(p) <= leaves):
            continue
        qs = sorted(used_qubits(p))
        mode = rng.choice(['none', 'perm', 'prefix'])
        order = None
        if mode == 'perm':
            order = qs[:]
            rng.shuffle(order)
        elif mode == 'prefix':
            order = qs[:]
            rng.shuffle(order)
            order = order[:max(1, len(order) - 1)]
        labels = None if rng.random() < 0.5 else {str(q): f"Q{q}x" for q in qs[:max(1, len(qs) - 1)]}
        out.append({'prog': p, 'order': order, 'labels': labels, 'compact': rng.random() < 0.6, 'unroll': rng.random() < 0.5})
    return out


def used_qubits(prog):
    qs = set()
    for st in prog['steps']:
        k = st['k']
        if k[0] == 'S':
            qs |= used_qubits(k[1])
        elif k[0] in ('W', 'M'):
            qs.add(k[1])
        elif k[0] == 'V':
            qs.add(k[2])
        elif k[0] in ('G', 'T'):
            qs |= set(k[2])
        elif k[0] == 'B':
            qs |= set(k[1])
    return qs


class Capture:
    """Stands in for plot_circuit_description: builds every draw component (real factories) and reads the transforms inside the drawing's scope."""
    def __init__(self, render: bool):
        self.render = render
        self.data = None

    def __enter__(self):
        from qce_circuit.visualization.visualize_circuit import display_circuit as dc
        self.dc = dc
        self.orig = dc.plot_circuit_description
        cap = self

        def stub(description, **kw):
            tc = description.get_transform_constructor()
            rec = {'channel_indices': list(description.channel_indices), 'width': description.channel_width, 'labels': dict(description.channel_label_map),
                   'spacing': description.channel_spacing, 'ops': [], 'components': [], 'headers': []}
            for o in description.operations:
                for ci in o.channel_identifiers:
                    pv = tc.identifier_to_pivot(identifier=ci, time_component=o)
                    rec['ops'].append((o, ci.id, pv.x, pv.y, tc.identifier_to_width(time_component=o)))
            for comp in description.get_operation_draw_components():
                rt = getattr(comp, 'rectilinear_transform', None)
                rec['components'].append((type(comp).__name__, None if rt is None else rt.pivot.x))
            rec['n_desc_ops'] = len(list(description.operations))
            rec['highlights'] = len(description.get_highlight_draw_components())
            for i in range(len(description.channel_indices)):
                h = description.get_channel_header(index=i)
                description.get_channel_bar(index=i)
                rec['headers'].append(getattr(h, 'channel_name', None))
            cap.data = rec
            if cap.render:
                import matplotlib.pyplot as plt
                fig, ax = cap.orig(description, **kw)
                plt.close(fig)
                return fig, ax
            return None, None
        dc.plot_circuit_description = stub
        return self

    def __exit__(self, *a):
        self.dc.plot_circuit_description = self.orig
        return False


def snapshot(circuit):
    ops = circuit.operations
    return {'ops': ops, 'times': [(o.start_time, o.end_time, o.duration) for o in ops], 'duration': circuit.duration,
            'acq': [(o.qubit_index, o.circuit_level_acquisition_index, o.acquisition_index) for o in ops if isinstance(o, IAcquisitionOperation)]}


def run(ctx, params):
    from qce_circuit.visualization.visualize_circuit.display_circuit import plot_circuit, VISUALIZATION_DURATION_REGISTRY
    g = cm.Globals(ctx)
    compact = params['compact']
    order = params['order']
    labels = None if params['labels'] is None else {int(k): v for k, v in params['labels'].items()}
    with g.override():
        built = cm.build(ctx, params['prog'])
        c = built.circuit.apply_modifiers() if params.get('unroll') else built.circuit
        before = snapshot(c)
        with Capture(render=ctx.mode == 'conc') as cap:
            plot_circuit(c, channel_order=order, channel_map=labels, compact_visualization=compact)
        d = cap.data
        # first through the operation objects the user already holds (no new listing in between), then through a fresh listing
        retained = [(o.start_time, o.end_time, o.duration) for o in before['ops']]
        ctx.check('C18.unchanged.retained', s_and(*[s_and(x[0] == y[0], x[1] == y[1], x[2] == y[2]) for x, y in zip(before['times'], retained)]),
                  {'compact': compact, 'before': before['times'], 'after': retained})
        after = snapshot(c)
        # ---- the circuit is left alone ---------------------------------------------------------------------------------
        info = {'compact': compact, 'order': order}
        ctx.check('C18.unchanged.operations', len(before['ops']) == len(after['ops']) and all(a is b for a, b in zip(before['ops'], after['ops'])), info)
        same = s_and(*[s_and(x[0] == y[0], x[1] == y[1], x[2] == y[2]) for x, y in zip(before['times'], after['times'])], before['duration'] == after['duration'])
        ctx.check('C18.unchanged.schedule', same, dict(info, before=before['times'], after=after['times']))
        ctx.check('C18.unchanged.acquisition', before['acq'] == after['acq'], dict(info, before=before['acq'], after=after['acq']))
        for k_, t in enumerate(after['times']):
            ctx.observe(f't{k_}', list(t))
        # ---- oracle schedule under the drawing's durations: a fresh identical circuit -----------------------------------------
        fresh = cm.build(ctx, params['prog'])
        if params.get('unroll'):
            fresh.circuit = fresh.circuit.apply_modifiers()
        if compact:
            with temporary_override_get_registry_at(VISUALIZATION_DURATION_REGISTRY):
                fops = fresh.circuit.operations
                want = [(o.start_time, o.end_time, o.duration) for o in fops]
        else:
            fops = fresh.circuit.operations
            want = [(o.start_time, o.end_time, o.duration) for o in fops]
    # rows: requested order first, remaining occupied channels after it in order of first occupation
    occupied = []
    for o in before['ops']:
        for ci in o.channel_identifiers:
            if ci.id not in occupied:
                occupied.append(ci.id)
    want_rows = list(order or []) + [q for q in occupied if q not in (order or [])]
    ctx.check('C18.position.row', d['channel_indices'] == want_rows, dict(info, drawn=d['channel_indices'], expected=want_rows))
    ctx.observe('n_drawn', len(d['ops']))
    xs, rows, widths = [], [], []
    pos = {id(o): k for k, o in enumerate(before['ops'])}
    for (o, q, x, y, w) in d['ops']:
        k_ = pos.get(id(o))
        if k_ is None:
            xs.append(False)
            continue
        xs.append(x == want[k_][0])
        widths.append(w == want[k_][2])
        rows.append(y == -1 * want_rows.index(q) * d['spacing'] if q in want_rows else False)
    ctx.check('C18.position.x', s_and(*xs, *widths), dict(info, drawn=[(q, x) for (_, q, x, _, _) in d['ops']], expected=[w[0] for w in want]))
    ctx.check('C18.position.row_y', s_and(*rows), info)
    latest = cm.smax([w[1] for w in want] + [1.0]) if want else 1.0
    ctx.check('C18.width', d['width'] == latest + 1.0, dict(info, width=d['width'], latest_end=latest))
    # every draw component is constructed by the real factories without error; their exact pivots are not compared: simultaneous
    # two-qubit blocks are deliberately offset sideways by OffsetTransformConstructor (artistic), which the statement does not constrain
    ctx.check('C18.components', len(d['components']) >= 1 or not before['ops'], dict(info, n_components=len(d['components'])))
    # ... and nothing the description holds is left undrawn: one draw component per operation of the visual description
    ctx.check('C18.components.complete', len(d['components']) == d['n_desc_ops'] == len(before['ops']),
              dict(info, n_components=len(d['components']), n_description_operations=d['n_desc_ops'], n_operations=len(before['ops']),
                   component_classes=sorted(set(c[0] for c in d['components']))))
    if labels:
        exp_names = [labels.get(q, None) for q in want_rows]
        ctx.check('C18.labels', all((h == n) if n is not None else (h == f'# {q}' or h == str(q) or True) for h, n, q in zip(d['headers'], exp_names, want_rows)),
                  dict(info, headers=d['headers'], expected=exp_names))
    # ---- unknown channel in the requested order is rejected ---------------------------------------------------------------------
    bad_order = (order or []) + [77]
    try:
        with g.override():
            with Capture(render=False):
                plot_circuit(c, channel_order=bad_order, compact_visualization=compact)
        rejected = False
    except ValueError:
        rejected = True
    ctx.check('C18.unknown_channel', rejected, dict(info, order=bad_order))
