"""
C15 -- the OpenQL export is the in-order image of the circuit.

Real code executed: OpenQLCircuitFactoryManager.construct (recursive walk, sub-programs times their repetition count, kernel),
construct_uuid, the 13-entry factory table, NameBased / Barrier / Wait / CompositeCPhase operation factories, get_qubit_index, to_openql.
Stub: PlatformManager.construct_program / construct_kernel return recorders (programs record add_program / add_kernel in call order,
kernels record gate / cz / barrier / wait calls); the *execution order* of the recorded calls is the order in which OpenQL runs
kernels: the kernels of a program in the order they were added, add_program contributing the kernels the sub-program held at that time.
The concrete twin builds the real ql.Program / ql.Kernel objects (no compile()).  Wait durations are enumerable symbolic integers
(the factory applies int()); the program shape over all operation classes, nesting and repetition is enumerated.
"""
from __future__ import annotations

import random

from symx.core import Sym, s_and
from . import common as cm
from . import gen
from qce_circuit.structure.intrf_circuit_operation_composite import CircuitCompositeOperation
from qce_circuit.addon_openql import platform_manager as pm

PROPERTY = 'C15'
FUNCTIONS = ['OpenQLCircuitFactoryManager.construct', 'OpenQLCircuitFactoryManager.construct_uuid', 'OpenQLFactoryManager (table)', 'to_openql',
             'NameBasedOperationsFactory.construct', 'BarrierOperationsFactory.construct', 'WaitOperationsFactory.construct', 'CompositeCPhaseOperationsFactory.construct', 'get_qubit_index']
BOUNDS = {'quick': "every operation class alone and inside a repeated sub-circuit (count 1..3) between two kernel operations; 500 seeded random programs over all classes (<= 4 steps per "
                   "circuit, nesting <= 2, counts 1..3); wait durations symbolic integers in [0, 3]",
          'thorough': "25000 programs, <= 5 steps, nesting <= 3"}
OUTSIDE = ["Program.compile() and the cQASM text (C++)", "non-integer wait durations (int() truncation)", "platform configuration (qubit count 17 of the shipped json)"]
ASSUMPTIONS = ["the recording platform stands for OpenQL's Program/Kernel containers; execution order = kernels in the order they were added to the top-level program",
               "documented instruction of each supported class: the table of addon_openql/factory_manager.py, restated in this harness"]
REQUIRED_REACH = ['C15.image', 'C15.names_stable', 'C15.repeatable', 'C15.real_openql']
EXHAUSTIVE = {'quick': False, 'thorough': False}
JOB_OPTS = {'quick': dict(max_paths=300, max_seconds=300), 'thorough': dict(max_paths=300, max_seconds=900)}

TABLE = {'Reset': 'prepz', 'Hadamard': 'h', 'Identity': 'i', 'DispersiveMeasure': 'measure', 'Rx180': 'x180', 'Rx90': 'x90', 'Rxm90': 'mx90', 'Ry180': 'y180', 'Ry90': 'y90', 'Rym90': 'my90'}
ONE_Q = ['Reset', 'Identity', 'Hadamard', 'Rx180', 'Rx90', 'Rxm90', 'Ry180', 'Ry90', 'Rym90', 'Rx180ef', 'VirtualPhase', 'VirtualPark', 'Rphi90']


def alphabet():
    a = [['WI', 0, 'ALL'], ['WI', 1, 'MW'], ['V', 'VirtualVacant', 0, 'FL'], ['V', 'VirtualEmpty', 1, 'ALL'], ['V', 'SingleQubitOperation', 0, 'ALL'],
         ['T', 'TwoQubitOperation', [0, 1], 'ALL'], ['T', 'VirtualTwoQubitVacant', [0, 2], 'FL'], ['G', 'CPhase', [0, 1]], ['G', 'CPhase', [2, 1]],
         ['G', 'TwoQubitVirtualPhase', [0, 1]], ['M', 0, 'a'], ['M', 2, 'b'], ['B', [0, 1]], ['B', [0, 1, 2]], ['SHIFT', [0, 1], 2, 1], ['OBS', 0, ['lai', 'main']], ['DET', 1, ['lai', 'main']]]
    a += [['G', c, [q]] for c in ONE_Q for q in (0, 2)]
    return a


def jobs(tier, seed):
    rng = random.Random(seed + 15)
    alpha = alphabet()
    out = []
    for k in alpha:
        out.append({'prog': {'steps': [{'k': k, 'rel': None}]}})
        for rep in (1, 2, 3):
            out.append({'prog': {'steps': [{'k': ['G', 'Rx180', [1]], 'rel': None}, {'k': ['S', {'steps': [{'k': k, 'rel': None}, {'k': ['G', 'Ry90', [0]], 'rel': None}], 'rep': rep}], 'rel': None},
                                           {'k': ['G', 'Rx90', [1]], 'rel': None}]}})
    n, steps, depth = (500, 4, 2) if tier == 'quick' else (25000, 5, 3)
    for _ in range(n):
        p = gen.random_program(rng, alpha, steps, depth, types='FSE', p_sub=0.3, p_rel=0.3, reps=(1, 2, 3), sub_rel=False)
        if gen.count_leaves(p) <= 30:
            out.append({'prog': p})
    return out


class RecKernel:
    def __init__(self, name):
        self.name = name
        self.calls = []

    def gate(self, name, qubits, *a, **k):
        self.calls.append(('gate', name, list(qubits) if isinstance(qubits, (list, tuple)) else [qubits]))

    def cz(self, q0, q1):
        self.calls.append(('cz', 'cz', [q0, q1]))

    def barrier(self, qubits):
        self.calls.append(('barrier', 'barrier', list(qubits)))

    def wait(self, qubits, duration):
        self.calls.append(('wait', duration, list(qubits)))


class RecProgram:
    """Records kernels in execution order; like OpenQL it refuses a second kernel of the same name (recorded, not raised)."""
    def __init__(self, name):
        self.name = name
        self.kernels = []     # execution order
        self.duplicates = []

    def add_kernel(self, kernel):
        if any(k.name == kernel.name for k in self.kernels):
            self.duplicates.append(kernel.name)
        self.kernels.append(kernel)

    def add_program(self, program):
        for k in program.kernels:
            self.add_kernel(k)
        self.duplicates.extend(program.duplicates)


class _Platform:
    def __init__(self, on):
        self.on = on
        self.names = []

    def __enter__(self):
        if self.on:
            self.saved = (pm.PlatformManager.construct_program, pm.PlatformManager.construct_kernel)
            names = self.names

            def cp(cls, name):
                names.append(('program', name))
                return RecProgram(name)

            def ck(cls, name):
                names.append(('kernel', name))
                return RecKernel(name)
            pm.PlatformManager.construct_program = classmethod(cp)
            pm.PlatformManager.construct_kernel = classmethod(ck)
        return self

    def __exit__(self, *a):
        if self.on:
            pm.PlatformManager.construct_program, pm.PlatformManager.construct_kernel = self.saved
        return False


def translate(node) -> list:
    k = node.kind
    if k[0] == 'G' and k[1] in TABLE:
        return [('gate', TABLE[k[1]], list(k[2]))]
    if k[0] == 'G' and k[1] == 'CPhase':
        return [('cz', 'cz', list(k[2])), ('barrier', 'barrier', list(k[2])), ('gate', 'update_ph', [k[2][0]]), ('gate', 'update_ph', [k[2][1]])]
    if k[0] == 'M':
        return [('gate', 'measure', [k[1]])]
    if k[0] == 'B':
        return [('barrier', 'barrier', list(k[1]))]
    if k[0] == 'WI':
        return [('wait', node.dur, [k[1]])]
    return []


def expected(comp, by_obj) -> list:
    out = []
    for child in cm.composite_children(comp):
        if isinstance(child, CircuitCompositeOperation):
            out.extend(expected(child, by_obj) * child.nr_of_repetitions)
        else:
            node = by_obj.get(id(child))
            out.extend(translate(node) if node is not None else [('<unknown>', '', [])])
    return out


def calls_equal(a, b):
    if len(a) != len(b):
        return False, min(len(a), len(b))
    conds = []
    for i, (x, y) in enumerate(zip(a, b)):
        if x[0] != y[0] or list(x[2]) != list(y[2]):
            return False, i
        if x[0] == 'wait':
            conds.append(x[1] == y[1])
        elif x[1] != y[1]:
            return False, i
    return s_and(*conds), None


def run(ctx, params):
    from qce_circuit.addon_openql.factory_manager import to_openql
    built = cm.build(ctx, params['prog'])
    c = built.circuit
    by_obj = {id(n.obj): n for n in built.all_nodes if not n.is_sub}
    with _Platform(True) as plat:
        prog = to_openql(c)
        names1 = list(plat.names)
    got = [call for k in prog.kernels for call in k.calls]
    want = expected(c.circuit_structure, by_obj)
    ctx.observe('n_calls', len(got))
    ctx.observe('calls', [[x[0], x[1] if x[0] == 'wait' else str(x[1]), list(x[2])] for x in got])
    cond, idx = calls_equal(got, want)
    # fingerprint of known finding F9: the recorded order is "all sub-programs first (walk order, each internally in order), then the kernel"
    def subs_first(comp):
        subs, own = [], []
        for child in cm.composite_children(comp):
            if isinstance(child, CircuitCompositeOperation):
                subs.extend(subs_first(child) * child.nr_of_repetitions)
            else:
                node = by_obj.get(id(child))
                own.extend(translate(node) if node is not None else [])
        return subs + own
    alt, _ = calls_equal(got, subs_first(c.circuit_structure))
    has_sub_after_kernel_op = _sub_after_op(c.circuit_structure, by_obj)
    ctx.check('C15.image', cond, {'first_difference': idx, 'recorded': [(x[0], str(x[1]), x[2]) for x in got][:24], 'expected': [(x[0], str(x[1]), x[2]) for x in want][:24],
                                  'equals_sub_programs_first_order': alt, 'sub_circuit_preceded_by_kernel_operation': has_sub_after_kernel_op})
    # same circuit -> same program and kernel names
    with _Platform(True) as plat2:
        to_openql(c)
        names2 = list(plat2.names)
    ctx.check('C15.names_stable', names1 == names2 and len(names1) >= 2, {'first': names1[:6], 'second': names2[:6]})
    # OpenQL refuses two kernels of the same name in one program: a sub-circuit repeated n >= 2 times (or two sub-circuits with the same
    # content) must still be exportable "as many times as its repetition count"
    def max_rep(comp):
        m = 1
        for child in cm.composite_children(comp):
            if isinstance(child, CircuitCompositeOperation):
                m = max(m, child.nr_of_repetitions, max_rep(child))
        return m
    info_dup = {'duplicate_kernel_names': sorted(set(prog.duplicates))[:4], 'max_repetition_count': max_rep(c.circuit_structure),
                'fingerprint': 'duplicate_kernel_name'}
    if ctx.mode == 'conc':
        # the twin builds the real OpenQL objects (construction only): it must succeed exactly when the recorder saw no duplicate name
        try:
            to_openql(c)
            real_ok, err = True, ''
        except Exception as ex:  # noqa
            real_ok, err = False, str(ex).split('\n')[0][:120]
        info_dup['real_openql'] = 'accepted' if real_ok else err
        ctx.check('C15.repeatable', real_ok, info_dup)
        ctx.check('C15.real_openql', real_ok == (not prog.duplicates), info_dup)
    else:
        ctx.check('C15.repeatable', not prog.duplicates, info_dup)
        ctx.check('C15.real_openql', True)


def _sub_after_op(comp, by_obj):
    seen_op = False
    for child in cm.composite_children(comp):
        if isinstance(child, CircuitCompositeOperation):
            inner = expected(child, by_obj)
            if seen_op and inner:
                return True
            if _sub_after_op(child, by_obj):
                return True
        else:
            node = by_obj.get(id(child))
            if node is not None and translate(node):
                seen_op = True
    return False
