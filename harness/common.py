"""
Shared models for the circuit properties (DESIGN.md section 5): build programs, their
construction through the public API on symbolic durations, and non-forking helpers for oracles.

A *program* (JSON-serialisable):
    prog  = {"steps": [step, ...], "rep": n}
    step  = {"k": kind, "rel": None | [T, ref_index]}        T in "F" (FOLLOWED_BY) "S" (JOINED_START) "E" (JOINED_END)
    kind  = ["W", q, ch]              Wait on qubit q, channel ch in ALL/MW/FL/RO, own symbolic fixed duration
          | ["V", cls, q, ch]         VirtualVacant / VirtualEmpty / SingleQubitOperation with own symbolic duration
          | ["G", cls, [qubits]]      operation whose duration comes from one of the four global durations
          | ["M", q, tag]             DispersiveMeasure against the registry of the circuit it is added to
          | ["B", [qubits]]           Barrier (fixed 0.5)
          | ["T", cls, [q0, q1], ch]  TwoQubitOperation / VirtualTwoQubitVacant with own symbolic duration
          | ["S", prog]               nested sub-circuit (built first, then added == copied, as a user does)
"""
from __future__ import annotations

import contextlib
from typing import Any, Dict, List, Optional

import z3

from symx.core import Sym, SymBool, s_and, s_or, s_not

from qce_circuit.language.declarative_circuit import DeclarativeCircuit
from qce_circuit.structure.intrf_circuit_operation import (
    RelationLink, RelationType, QubitChannel, ChannelIdentifier, MultiRelationLink,
)
from qce_circuit.structure.intrf_circuit_operation_composite import CircuitCompositeOperation
from qce_circuit.structure import circuit_operations as co
from qce_circuit.structure.registry_duration import (
    FixedDurationStrategy, GlobalRegistryKey, temporary_override_get_registry_at, RegistryDurationStrategy, DurationRegistry,
    GlobalDurationStrategy,
)
from qce_circuit.structure.registry_repetition import FixedRepetitionStrategy, RegistryRepetitionStrategy, RepetitionRegistry

REL = {'F': RelationType.FOLLOWED_BY, 'S': RelationType.JOINED_START, 'E': RelationType.JOINED_END}
CH = {'ALL': QubitChannel.ALL, 'MW': QubitChannel.MICROWAVE, 'FL': QubitChannel.FLUX, 'RO': QubitChannel.READOUT}
GLOBAL_OF = {  # class name -> (global key, channels per qubit)
    'Reset': ('rs', ['ALL']), 'Identity': ('mw', ['MW']), 'Hadamard': ('mw', ['MW']), 'Rx180': ('mw', ['MW']),
    'Rx90': ('mw', ['MW']), 'Rxm90': ('mw', ['MW']), 'Ry180': ('mw', ['MW']), 'Ry90': ('mw', ['MW']),
    'Rym90': ('mw', ['MW']), 'Rx180ef': ('mw', ['MW']), 'VirtualPhase': ('mw', ['MW']), 'Rphi90': ('mw', ['MW']),
    'VirtualPark': ('fl', ['FL']), 'CPhase': ('fl', ['FL', 'MW']), 'TwoQubitVirtualPhase': (None, ['MW']),
}
GKEY = {'ro': GlobalRegistryKey.READOUT, 'mw': GlobalRegistryKey.MICROWAVE, 'fl': GlobalRegistryKey.FLUX, 'rs': GlobalRegistryKey.RESET}


# ---------------------------------------------------------------------------------------------
# non-forking helpers for oracles
# ---------------------------------------------------------------------------------------------
def _z(x):
    if isinstance(x, Sym):
        e = x.z3()
        return z3.ToReal(e) if e.sort() == z3.IntSort() else e
    from fractions import Fraction
    return z3.RealVal(str(Fraction(x)))


def smax(xs: list):
    """max without forking (z3 If-chain) when any element is symbolic."""
    xs = list(xs)
    syms = [x for x in xs if isinstance(x, Sym)]
    if not syms:
        return max(xs)
    ctx = syms[0].ctx
    acc = _z(xs[0])
    for x in xs[1:]:
        zx = _z(x)
        acc = z3.If(zx > acc, zx, acc)
    return Sym(ctx, None, ast=acc, is_int=False)


def smin(xs: list):
    xs = list(xs)
    syms = [x for x in xs if isinstance(x, Sym)]
    if not syms:
        return min(xs)
    ctx = syms[0].ctx
    acc = _z(xs[0])
    for x in xs[1:]:
        zx = _z(x)
        acc = z3.If(zx < acc, zx, acc)
    return Sym(ctx, None, ast=acc, is_int=False)


def eq(a, b):
    """a == b as a condition (SymBool or bool) -- never forks."""
    return a == b


def le(a, b):
    return a <= b


def any_of(conds: list):
    return s_or(*conds)


def all_of(conds: list):
    return s_and(*conds)


# ---------------------------------------------------------------------------------------------
# global durations
# ---------------------------------------------------------------------------------------------
class Globals:
    def __init__(self, ctx, prefix: str = 'g', strict: bool = False):
        self.vals = {k: ctx.real(f"{prefix}_{k}", lo=0, lo_strict=strict, reuse=True) for k in ('ro', 'mw', 'fl', 'rs')}

    def table(self) -> Dict[GlobalRegistryKey, Any]:
        return {GKEY[k]: v for k, v in self.vals.items()}

    def override(self):
        return temporary_override_get_registry_at(self.table())

    def __getitem__(self, k):
        return self.vals[k]


# ---------------------------------------------------------------------------------------------
# program construction
# ---------------------------------------------------------------------------------------------
class Node:
    """Record of one program step after construction."""
    def __init__(self, spec, path):
        self.spec = spec
        self.kind = spec['k']
        self.rel = spec.get('rel')
        self.path = path                      # tuple of indices
        self.obj = None                       # the object living in the enclosing circuit (returned by add)
        self.dur = None                       # symbolic own duration (W/V/T kinds) or None
        self.children: List['Node'] = []      # for S
        self.circuit: Optional[DeclarativeCircuit] = None   # for S: the DeclarativeCircuit that was built and then added
        self.rep = 1
        self.parent: Optional['Node'] = None
        self.fields: dict = {}

    @property
    def is_sub(self):
        return self.kind[0] == 'S'

    def qubit_channels(self) -> List[tuple]:
        """(qubit, channel-name) pairs this step occupies, from the *program*."""
        k = self.kind
        if k[0] in ('W', 'R', 'WI'):
            return [(k[1], k[2])]
        if k[0] == 'V':
            return [(k[2], k[3] if k[1] != 'SingleQubitOperation' else 'ALL')]
        if k[0] == 'G':
            chans = GLOBAL_OF[k[1]][1]
            return [(q, c) for q in k[2] for c in chans]
        if k[0] == 'M':
            return [(k[1], 'RO')]
        if k[0] == 'B':
            return [(q, 'ALL') for q in k[1]]
        if k[0] == 'T':
            ch = k[3] if k[1] == 'VirtualTwoQubitVacant' else 'ALL'
            return [(q, ch) for q in k[2]]
        if k[0] in ('DET', 'OBS'):
            return [(k[1], 'ALL')]
        if k[0] == 'SHIFT':
            return [(q, 'ALL') for q in k[1]]
        if k[0] == 'S':
            out = []
            for c in self.children:
                for qc in c.qubit_channels():
                    if qc not in out:
                        out.append(qc)
            return out
        raise ValueError(k)

    def leaves(self) -> List['Node']:
        if not self.is_sub:
            return [self]
        out = []
        for c in self.children:
            out.extend(c.leaves())
        return out

    def label(self):
        return ".".join(map(str, self.path))


def channels_overlap(a: List[tuple], b: List[tuple]) -> bool:
    for (qa, ca) in a:
        for (qb, cb) in b:
            if qa == qb and (ca == cb or ca == 'ALL' or cb == 'ALL'):
                return True
    return False


class Built:
    def __init__(self):
        self.circuit: Optional[DeclarativeCircuit] = None
        self.nodes: List[Node] = []       # top-level step records
        self.all_nodes: List[Node] = []
        self.durs: Dict[str, Any] = {}
        self.share_links = False
        self.dur_pool = 0
        self.top = None
        self.registry = DurationRegistry()
        self.reg_keys: List[str] = []
        self.lost_label: Optional[str] = None
        self.unset_keys: Dict[str, Any] = {}

    def leaves(self) -> List[Node]:
        out = []
        for n in self.nodes:
            out.extend(n.leaves())
        return out


def _mk_relation(node: Node, siblings: List[Node], cache: Optional[dict] = None):
    if node.rel is None:
        return None
    t, idx = node.rel
    if cache is not None:
        # the library's own constructors and tests re-use one RelationLink object for several operations
        key = (t, idx)
        if key not in cache:
            cache[key] = RelationLink(siblings[idx].obj, REL[t])
        return cache[key]
    return RelationLink(siblings[idx].obj, REL[t])


def _dur_name(node: Node, built: 'Built') -> str:
    # optionally draw durations from a small pool of symbolic values (fewer dimensions -> fewer orderings) instead of one per step
    if built.dur_pool:
        return f"d_pool{sum((i + 1) * (p + 1) for i, p in enumerate(node.path)) % built.dur_pool}"
    return 'd_' + node.label().replace('.', '_')


def _make_leaf(ctx, node: Node, circuit: DeclarativeCircuit, relation, built: Built):
    k = node.kind
    kw = {}
    if relation is not None:
        kw['relation'] = relation
    if k[0] == 'W':
        node.dur = ctx.real(_dur_name(node, built), lo=0, reuse=True)
        built.durs[node.label()] = node.dur
        return co.Wait(k[1], qubit_channel=CH[k[2]], duration_strategy=FixedDurationStrategy(node.dur), **kw)
    if k[0] == 'V':
        node.dur = ctx.real(_dur_name(node, built), lo=0, reuse=True)
        built.durs[node.label()] = node.dur
        cls = getattr(co, k[1])
        if k[1] == 'SingleQubitOperation':
            return cls(k[2], duration_strategy=FixedDurationStrategy(node.dur), **kw)
        return cls(k[2], qubit_channel=CH[k[3]], duration_strategy=FixedDurationStrategy(node.dur), **kw)
    if k[0] == 'T':
        node.dur = ctx.real(_dur_name(node, built), lo=0, reuse=True)
        built.durs[node.label()] = node.dur
        cls = getattr(co, k[1])
        if k[1] == 'VirtualTwoQubitVacant':
            return cls(k[2][0], k[2][1], qubit_channel=CH[k[3]], duration_strategy=FixedDurationStrategy(node.dur), **kw)
        return cls(k[2][0], k[2][1], duration_strategy=FixedDurationStrategy(node.dur), **kw)
    if k[0] == 'WI':
        # Wait whose fixed duration is a small symbolic *integer* (the OpenQL wait factory applies int())
        node.dur = ctx.int_('n_' + node.label().replace('.', '_'), lo=0, hi=3)
        built.durs[node.label()] = node.dur
        return co.Wait(k[1], qubit_channel=CH[k[2]], duration_strategy=FixedDurationStrategy(node.dur), **kw)
    if k[0] == 'R':
        # Wait whose duration is looked up in a DurationRegistry (value symbolic, may be changed later by the history)
        key = 'key_' + node.label().replace('.', '_')
        if len(k) > 3 and k[3] == 'unset':
            # the key is not assigned before the circuit is built (the registry serves its default 0.0 until the history sets it)
            node.dur = 0.0
            built.reg_keys.append(key)
            built.unset_keys[key] = node
            built.durs[node.label()] = node.dur
            return co.Wait(k[1], qubit_channel=CH[k[2]], duration_strategy=RegistryDurationStrategy(registry=built.registry, registry_key=key), **kw)
        node.dur = ctx.real(('v_' + node.label().replace('.', '_')) if not built.dur_pool else _dur_name(node, built), lo=0, reuse=True)
        built.registry.set_registry_at(key, node.dur)
        built.reg_keys.append(key)
        built.durs[node.label()] = node.dur
        return co.Wait(k[1], qubit_channel=CH[k[2]], duration_strategy=RegistryDurationStrategy(registry=built.registry, registry_key=key), **kw)
    if k[0] == 'G':
        cls = getattr(co, k[1])
        return cls(*k[2], **kw)
    if k[0] == 'M':
        # measured against the registry of the circuit it is added to, or (library style) against the top-level circuit's registry
        owner = built.top if (len(k) > 3 and k[3] == 'top' and built.top is not None) else circuit
        return co.DispersiveMeasure(k[1], acquisition_strategy=owner.get_acquisition_strategy(), acquisition_tag=k[2], **kw)
    if k[0] == 'B':
        b = co.Barrier(list(k[1]))
        if relation is not None:
            b.relation_link = relation   # public setter; the constructor does not take a relation
        return b
    if k[0] in ('DET', 'OBS', 'SHIFT'):
        from qce_circuit.addon_stim import circuit_operations as so
        tag = node.label().replace('.', '_')
        if k[0] == 'SHIFT':
            b = so.CoordinateShiftOperation(qubit_indices=list(k[1]), space_shift=k[2], time_shift=k[3])
            if relation is not None:
                b.relation_link = relation
            return b
        # record fields: symbolic integers constrained so that every lookback is negative (what stim itself requires)
        f = {}
        shape = k[2]
        if 'lai' in shape:
            f['last_acquisition_index'] = ctx.int_(f'lai_{tag}', lo=0)
        if 'main' in shape:
            f['main_target'] = ctx.int_(f'main_{tag}', lo=0)
            ctx.assume(f['main_target'] <= f['last_acquisition_index'])
        if k[0] == 'DET':
            if 'sec' in shape:
                f['secondary_target'] = ctx.int_(f'sec_{tag}', lo=0)
                ctx.assume(f['secondary_target'] <= f['last_acquisition_index'])
            if 'ref' in shape:
                f['reference_offset'] = ctx.int_(f'ref_{tag}', lo=1)
            if 'so' in shape:
                f['secondary_offset'] = ctx.int_(f'so_{tag}', lo=1)
            node.fields = f
            return so.DetectorOperation(k[1], **f, **kw)
        node.fields = f
        return so.LogicalObservableOperation(k[1], **f, **kw)
    raise ValueError(k)


def build_circuit(ctx, prog: dict, built: Built, path=(), relation=None, parent: Optional[Node] = None, rep_value=None):
    """Builds one (sub-)circuit through the public API.  Returns (DeclarativeCircuit, [Node])."""
    rep = prog.get('rep', 1) if rep_value is None else rep_value
    kw = {}
    if relation is not None:
        kw['relation'] = relation
    if rep != 1 or 'rep' in prog:
        kw['repetition_strategy'] = FixedRepetitionStrategy(rep)
    circuit = DeclarativeCircuit(**kw)
    if built.top is None:
        built.top = circuit
    nodes: List[Node] = []
    link_cache = {} if built.share_links else None
    for i, spec in enumerate(prog['steps']):
        node = Node(spec, path + (i,))
        node.parent = parent
        built.all_nodes.append(node)
        rel = _mk_relation(node, nodes, link_cache)
        if node.is_sub:
            sub_prog = node.kind[1]
            node.rep = sub_prog.get('rep', 1)
            sub_circuit, children = build_circuit(ctx, sub_prog, built, path + (i,), relation=rel, parent=node)
            node.circuit = sub_circuit
            node.children = children
            node.obj = circuit.add(sub_circuit)
            # the content of the parent is a *copy*: map the records of the children onto the copied operations
            remap_children(node, node.obj, ctx, built.lost_label)
        else:
            op = _make_leaf(ctx, node, circuit, rel, built)
            node.obj = circuit.add(op)
        nodes.append(node)
    return circuit, nodes


def composite_children(comp: CircuitCompositeOperation) -> list:
    """Direct children operations of a composite, in the library's own iteration order."""
    return [n.operation for n in comp._circuit_graph.get_node_iterator()]


def _same_kind(a, b) -> bool:
    if type(a) is not type(b):
        return False
    for attr in ('qubit_index', 'control_qubit_index', 'target_qubit_index', 'qubit_indices', 'acquisition_tag', 'qubit_channel'):
        if hasattr(a, attr) and getattr(a, attr) != getattr(b, attr):
            return False
    # record fields of detector / observable annotations and coordinate shifts (symbolic ones are copied by reference)
    for attr in ('last_acquisition_index', 'main_target', 'secondary_target', 'reference_offset', 'secondary_offset', 'space_shift', 'time_shift'):
        if hasattr(a, attr) or hasattr(b, attr):
            va, vb = getattr(a, attr, None), getattr(b, attr, None)
            if (va is None) != (vb is None):
                return False
            if va is not vb and not (type(va) in (int, float) and type(vb) in (int, float) and va == vb):
                return False
    sa, sb = getattr(a, 'duration_strategy', None), getattr(b, 'duration_strategy', None)
    if isinstance(sa, FixedDurationStrategy) and isinstance(sb, FixedDurationStrategy):
        if sa is not sb and sa.duration is not sb.duration and not (type(sa.duration) in (int, float) and sa.duration == sb.duration and type(sb.duration) in (int, float)):
            return False
    elif isinstance(sa, RegistryDurationStrategy) or isinstance(sb, RegistryDurationStrategy):
        # (a copy that replaced the registry strategy by something else still is the counterpart of the step if it reports the very
        #  same duration object now; whether it keeps following the registry is for the harness' duration clauses to decide)
        if sa is not sb and not (type(sa) is not type(sb) and a.duration is b.duration):
            return False
    return True


def _same_shape(a, b) -> bool:
    """Recursive structural comparison of a block with its copy (children in the library's iteration order)."""
    ca, cb = isinstance(a, CircuitCompositeOperation), isinstance(b, CircuitCompositeOperation)
    if ca != cb:
        return False
    if not ca:
        return _same_kind(a, b)
    ka, kb = composite_children(a), composite_children(b)
    return len(ka) == len(kb) and all(_same_shape(x, y) for x, y in zip(ka, kb))


class HarnessMappingError(Exception):
    pass


def remap_children(node: Node, copied: CircuitCompositeOperation, ctx=None, lost_label=None):
    """After `node.obj` was replaced by a copy, point the children's records at the copied operations.  A step without counterpart in
    the copy is a harness error, unless the calling harness asserts completeness of the copy itself (`lost_label`): then it is
    recorded as a violation of that clause first."""
    copies = composite_children(copied)
    used = set()
    for child in node.children:
        found = None
        for j, c in enumerate(copies):
            if j in used:
                continue
            if child.is_sub:
                if isinstance(c, CircuitCompositeOperation) and isinstance(child.obj, CircuitCompositeOperation) and _same_shape(c, child.obj):
                    found = j
                    break
            elif _same_kind(child.obj, c):
                # prefer the candidate that shares the duration-strategy object (copies keep it): equal concrete durations of two
                # different steps must not be confused
                if found is None:
                    found = j
                if getattr(child.obj, 'duration_strategy', None) is not None and getattr(child.obj, 'duration_strategy', None) is getattr(c, 'duration_strategy', None):
                    found = j
                    break
        if found is None:
            if ctx is not None and lost_label:
                ctx.check(lost_label, False, {'step': child.label(), 'kind': child.kind if not child.is_sub else 'S', 'copied_children': [type(c).__name__ for c in copies],
                                              'expected_children': len(node.children)})
            raise HarnessMappingError(f"copied sub-circuit has no counterpart of step {child.label()}")
        used.add(found)
        child.obj = copies[found]
        if child.is_sub:
            remap_children(child, child.obj, ctx, lost_label)


def build(ctx, prog: dict, share_links: bool = False, dur_pool: int = 0, lost_label: Optional[str] = None) -> Built:
    built = Built()
    built.share_links = share_links
    built.dur_pool = dur_pool
    built.lost_label = lost_label
    circuit, nodes = build_circuit(ctx, prog, built)
    built.circuit = circuit
    built.nodes = nodes
    return built


# ---------------------------------------------------------------------------------------------
# program-level facts used by oracles
# ---------------------------------------------------------------------------------------------
def relation_depths(nodes: List[Node]) -> List[int]:
    """delta(step): number of relation steps from the circuit start, implicit placement included (computed from the program)."""
    depth: List[int] = []
    for i, n in enumerate(nodes):
        if n.rel is not None:
            depth.append(depth[n.rel[1]] + 1)
            continue
        cands = [j for j in range(i) if channels_overlap(nodes[j].qubit_channels(), n.qubit_channels())]
        depth.append(1 if not cands else max(depth[j] for j in cands) + 1)
    return depth


def implicit_predecessors(nodes: List[Node], i: int, depth: List[int]) -> List[int]:
    """Indices of the earlier steps an unrelated step i may be placed after: channel-overlapping, maximal delta."""
    n = nodes[i]
    cands = [j for j in range(i) if channels_overlap(nodes[j].qubit_channels(), n.qubit_channels())]
    if not cands:
        return []
    m = max(depth[j] for j in cands)
    return [j for j in cands if depth[j] == m]


def times(obj):
    """(start, end, duration) as the library reports them, start read first."""
    s = obj.start_time
    d = obj.duration
    e = obj.end_time
    return s, e, d
