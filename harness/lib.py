"""Constructors of library circuits from JSON-serialisable specs (shared by C06-C11, C13, C18)."""
from __future__ import annotations

from typing import List, Optional

from qce_circuit.language import InitialStateContainer, InitialStateEnum, DeclarativeCircuit
from qce_circuit.connectivity.intrf_channel_identifier import QubitIDObj
from qce_circuit.library.repetition_code.circuit_constructors import (
    construct_repetition_code_circuit, construct_repetition_code_circuit_simplified, construct_repetition_code_multi_round_circuit,
)
from qce_circuit.library.repetition_code.circuit_components import RepetitionCodeDescription
from qce_circuit.library.repetition_code.repetition_code_connectivity import Repetition9Code, Repetition9Round6Code, Repetition5Round4Code
from qce_circuit.library.state_calibration.circuit_constructors import construct_calibration_circuit
from qce_circuit.library.state_calibration.circuit_components import CalibrationDescription, CalibrateType

LAYOUTS = {'Repetition9Code': Repetition9Code, 'Repetition9Round6Code': Repetition9Round6Code, 'Repetition5Round4Code': Repetition5Round4Code}
STATE = {0: InitialStateEnum.ZERO, 1: InitialStateEnum.ONE}


def initial_state(data_bits: List[int], ancilla_bits: Optional[List[int]] = None) -> InitialStateContainer:
    return InitialStateContainer.from_ordered_list([STATE[b] for b in data_bits], None if ancilla_bits is None else [STATE[b] for b in ancilla_bits])


def description(spec: dict, d: int):
    """spec: None | {'chain': length, 'refocus': bool} | {'layout': name, 'involved': [qubit names], 'refocus': bool, 'exclude_edges': [[q, q], ...]}"""
    if spec is None:
        return None
    if 'chain' in spec:
        return RepetitionCodeDescription.from_chain(length=spec['chain'], qubit_refocusing=spec.get('refocus', True))
    layout = LAYOUTS[spec['layout']]()
    involved = [QubitIDObj(n) for n in spec['involved']]
    base = RepetitionCodeDescription.from_connectivity(involved_qubit_ids=involved, connectivity=layout, qubit_refocusing=spec.get('refocus', True))
    if spec.get('exclude_edges'):
        # composite description: the base description with some of its gates left out
        from qce_circuit.library.repetition_code.circuit_components import CompositeRepetitionCodeDescription
        from qce_circuit.connectivity.intrf_channel_identifier import EdgeIDObj
        return CompositeRepetitionCodeDescription(_base_description=base, _qubit_index_map={q: i for i, q in enumerate(involved)}, _connectivity=layout,
                                                  _exclude_gate_edge_ids=[EdgeIDObj(QubitIDObj(a), QubitIDObj(b)) for a, b in spec['exclude_edges']])
    return base


def build(spec: dict) -> DeclarativeCircuit:
    """
    spec['kind'] in full | simplified | multi | calib.
    full/simplified: d (number of data qubits) or data (list of bits), cycles, desc (see description()), ancilla (optional bits)
    multi: rounds (list), desc (required), data bits
    calib: qubits (list of indices), type 'QUBIT'|'QUTRIT'
    """
    kind = spec['kind']
    if kind == 'calib':
        ids = [QubitIDObj(f'Q{i}') for i in spec['qubits']]
        desc = CalibrationDescription(_qubit_ids=ids, _qubit_index_map={q: i for q, i in zip(ids, spec['qubits'])}, _type=CalibrateType[spec.get('type', 'QUTRIT')])
        return construct_calibration_circuit(description=desc)
    data = spec.get('data') or [0] * spec['d']
    init = initial_state(data, spec.get('ancilla'))
    desc = description(spec.get('desc'), len(data))
    if kind == 'full':
        return construct_repetition_code_circuit(qec_cycles=spec['cycles'], description=desc, initial_state=init)
    if kind == 'simplified':
        return construct_repetition_code_circuit_simplified(qec_cycles=spec['cycles'], description=desc, initial_state=init)
    if kind == 'multi':
        if desc is None:
            desc = RepetitionCodeDescription.from_initial_state(initial_state=init)
        return construct_repetition_code_multi_round_circuit(qec_cycles=spec['rounds'], description=desc, initial_state=init)
    raise ValueError(kind)


def chain_of(layout_name: str) -> List[str]:
    layout = LAYOUTS[layout_name]()
    groups = layout.parity_group_x + layout.parity_group_z
    nbr = {}
    for g in groups:
        for dq in g.data_ids:
            nbr.setdefault(dq.id, []).append(g.ancilla_id.id)
            nbr.setdefault(g.ancilla_id.id, []).append(dq.id)
    ends = sorted(q for q, ns in nbr.items() if len(ns) == 1)
    chain, prev = [ends[0]], None
    while True:
        nxt = [n for n in nbr[chain[-1]] if n != prev]
        if not nxt:
            break
        prev = chain[-1]
        chain.append(nxt[0])
    return chain


def sub_chains(layout_name: str, min_data: int = 2, max_data: Optional[int] = None) -> List[List[str]]:
    chain = chain_of(layout_name)
    out = []
    for i in range(0, len(chain), 2):
        for j in range(i + 2, len(chain), 2):
            nd = (j - i) // 2 + 1
            if nd >= min_data and (max_data is None or nd <= max_data):
                out.append(chain[i:j + 1])
    return out


def sig(o):
    qs = tuple(getattr(o, a) for a in ('qubit_index', 'control_qubit_index', 'target_qubit_index') if hasattr(o, a))
    if hasattr(o, 'qubit_indices'):
        qs = tuple(o.qubit_indices)
    return (type(o).__name__, qs, getattr(o, 'acquisition_tag', None))
