"""
C09 -- repetition-code circuits run the protocol: deterministic detectors, exact record.

Real code executed: construct_repetition_code_circuit and everything below it (heralded initialisation, InitialStateContainer.get_*_operation,
RepetitionCodeDescription.from_chain / from_connectivity / get_operations, QEC rounds with and without dynamical decoupling, detectors,
final measurement, observables), to_stim, apply_modifiers, flatten.  The exported program is executed on a symbolic-phase stabiliser
tableau (symx/tableau.py): X/Z bits concrete, every sign an affine GF(2) form over (i) symbolic initial-state bits b_q and (ii) one fresh
variable per measurement whose outcome is random.  z3 then decides, for all values of all variables at once: each record bit equals the
prescribed term; every detector / observable parity is independent of the random-outcome variables.

Two modes.  'enum': the constructor is called for an explicit state vector (all 2^d data states x ancilla flips for small d).
'sym': the all-ZERO and all-ONE circuits are exported, shown to differ exactly by I -> X at one position per qubit (and each single-flip
circuit is exported to confirm the positions are independent), then the X's are applied conditionally on symbolic bits b_q -- one run
covers all 2^(2d-1) initial states.
"""
from __future__ import annotations

import itertools
import random

import z3

from symx import fakestim, tableau
from symx.core import SymBool, s_and
from . import lib
from qce_circuit.structure.circuit_operations import DispersiveMeasure

PROPERTY = 'C09'
FUNCTIONS = ['construct_repetition_code_circuit', 'get_circuit_qec_with_detectors', 'get_circuit_qec_round', 'get_circuit_qec_round_with_dynamical_decoupling',
             'get_circuit_initialize_with_heralded', 'get_circuit_initialize', 'get_circuit_final_measurement', 'InitialStateContainer.get_data_qubit_operation/'
             'get_ancilla_qubit_operation/get_operation/from_ordered_list', 'RepetitionCodeDescription.from_chain/from_initial_state/from_connectivity/get_operations',
             'DetectorOperation.to_stim_instruction', 'LogicalObservableOperation.to_stim_instruction', 'to_stim', 'DeclarativeCircuit.apply_modifiers/flatten']
BOUNDS = {'quick': "enum: d in {2,3}, cycles 0..5, all 2^d data states (ancillas default), d=2 additionally every ancilla state; sym (all initial states of data and ancilla qubits "
                   "at once): d in {2,3,4}, cycles 0..5; chain from length (refocusing on and off) and one 3-data-qubit sub-chain of Repetition9Code (refocusing on and off); as built, unrolled and flattened",
          'thorough': "enum: d <= 3 all data x ancilla states, cycles 0..9; sym: d <= 6, cycles 0..9, every contiguous sub-chain (2..5 data qubits, cycles 0,1,2,3,4,6) of the three shipped layouts"}
OUTSIDE = ["d > 5, cycles > 7", "non-computational initial states (PLUS/MINUS/...)", "noise", "the 'sym' mode relies on the exported circuits of different initial states differing only by I/X at "
           "one position per qubit, which is checked on all-ZERO / all-ONE / every single flip, not on all 2^(2d-1) vectors"]
ASSUMPTIONS = ["the tableau stands for Stim's simulator (validated against stim's sampler on the concrete twin and on random Clifford circuits in every run)",
               "protocol: heralding measurements give 0; ancilla j's t-th parity measurement gives a_j xor (t odd ? b_left xor b_right : 0); data refocusing flips after every cycle but the "
               "last (when refocusing is on); final data value b_i xor (number of flips mod 2); with 0 cycles the ancilla's single 'final' measurement gives a_j"]
REQUIRED_REACH = ['C09.record', 'C09.detectors.deterministic', 'C09.detectors.lookback', 'C09.detectors.count', 'C09.observable.deterministic', 'C09.structure', 'C09.tableau_vs_stim']
EXHAUSTIVE = {'quick': True, 'thorough': True}
JOB_OPTS = {'quick': dict(max_paths=50, max_seconds=900), 'thorough': dict(max_paths=50, max_seconds=3000)}


def jobs(tier, seed):
    out = []
    cmax = 5 if tier == 'quick' else 9
    descs = [None, {'refocus': False}]
    for d in (2, 3):
        for cycles in range(0, cmax + 1):
            for bits in itertools.product((0, 1), repeat=d):
                out.append({'mode': 'enum', 'd': d, 'cycles': cycles, 'data': list(bits), 'ancilla': None, 'desc': None})
            if d == 2 or tier != 'quick':
                for abits in itertools.product((0, 1), repeat=d - 1):
                    if any(abits):
                        for bits in ([0] * d, [1] + [0] * (d - 1)) if tier == 'quick' else itertools.product((0, 1), repeat=d):
                            out.append({'mode': 'enum', 'd': d, 'cycles': cycles, 'data': list(bits), 'ancilla': list(abits), 'desc': None})
    dmax = 4 if tier == 'quick' else 6
    for d in range(2, dmax + 1):
        for cycles in range(0, cmax + 1):
            for desc in descs:
                out.append({'mode': 'sym', 'd': d, 'cycles': cycles, 'desc': None if desc is None else {'chain': 2 * d - 1, 'refocus': False}})
    if tier == 'quick':
        sc = lib.sub_chains('Repetition9Code', 3, 3)[0]
        for cycles in (0, 1, 3):
            out.append({'mode': 'sym', 'd': 3, 'cycles': cycles, 'desc': {'layout': 'Repetition9Code', 'involved': sc}})
        for cycles in (2, 3):
            out.append({'mode': 'sym', 'd': 3, 'cycles': cycles, 'desc': {'layout': 'Repetition9Code', 'involved': sc, 'refocus': False}})
    else:
        for name in lib.LAYOUTS:
            for sc in lib.sub_chains(name, 2, 5):
                for cycles in (0, 1, 2, 3, 4, 6):
                    out.append({'mode': 'sym', 'd': (len(sc) + 1) // 2, 'cycles': cycles, 'desc': {'layout': name, 'involved': sc}})
                for cycles in (2, 3):
                    out.append({'mode': 'sym', 'd': (len(sc) + 1) // 2, 'cycles': cycles, 'desc': {'layout': name, 'involved': sc, 'refocus': False}})
    return out


def form_to_cond(ctx, form, bools):
    """affine form -> (z3 term | python bool)"""
    const, names = form
    if not names:
        return bool(const)
    if ctx.mode == 'conc':
        v = bool(const)
        for n in names:
            v ^= bool(bools[n])
        return v
    e = z3.BoolVal(bool(const))
    for n in sorted(names):
        e = z3.Xor(e, bools[n].z3())
    return SymBool(ctx, expr=e)


def forms_equal(ctx, a, b, bools):
    d = tableau.fxor(a, b)
    v = form_to_cond(ctx, d, bools)
    if isinstance(v, bool):
        return not v
    return ~v


def build(spec_base, data, ancilla):
    spec = dict(spec_base)
    spec['data'] = data
    if ancilla is not None:
        spec['ancilla'] = ancilla
    return lib.build(spec)


def export_units(c):
    from qce_circuit.addon_stim.factory_manager import to_stim
    return fakestim.normal_form(to_stim(c))


def measurement_plan(c):
    """(qubit, tag, occurrence index per (qubit, tag)) for every measurement in listing order of the *unrolled* circuit."""
    out, seen = [], {}
    for o in c.operations:
        if isinstance(o, DispersiveMeasure):
            k = (o.qubit_index, o.acquisition_tag)
            seen[k] = seen.get(k, 0) + 1
            out.append((o.qubit_index, o.acquisition_tag, seen[k]))
    return out


def prescribed(plan, d, cycles, b, a, refocus):
    """Record forms the protocol prescribes.  b[q], a[q]: forms of the requested initial states by circuit index."""
    out = []
    flips = (cycles - 1) if (cycles >= 1 and refocus) else 0
    for q, tag, occ in plan:
        if tag == 'heralded':
            out.append(tableau.ZERO)
        elif tag == 'parity':
            par = tableau.fxor(b[q - 1], b[q + 1])
            out.append(tableau.fxor(a[q], par) if occ % 2 == 1 else a[q])
        elif tag == 'final':
            if q in b:
                out.append(tableau.fconst(b[q], flips))
            else:
                out.append(a[q])
        else:
            out.append(None)
    return out


def run(ctx, params):
    d, cycles = params['d'], params['cycles']
    n = 2 * d - 1
    spec_base = {'kind': 'full', 'cycles': cycles, 'desc': params.get('desc')}
    refocus = True if params.get('desc') is None else params['desc'].get('refocus', True)
    data_q = list(range(0, n, 2))
    anc_q = list(range(1, n, 2))
    bools = {}
    counter = [0]

    def fresh():
        counter[0] += 1
        name = f'm{counter[0]}'
        bools[name] = ctx.bool_(name) if ctx.mode == 'sym' else bool(ctx.model_in.get(name, False))
        return name
    if params['mode'] == 'enum':
        data, anc = params['data'], params['ancilla']
        b = {q: (data[i], frozenset()) for i, q in enumerate(data_q)}
        a = {q: ((anc[i] if anc is not None else 0), frozenset()) for i, q in enumerate(anc_q)}
        variants = [('built', build(spec_base, data, anc))]
        cond_x = {}
    else:
        zero = build(spec_base, [0] * d, [0] * (d - 1))
        one = build(spec_base, [1] * d, [1] * (d - 1))
        u0, u1 = export_units(zero), export_units(one)
        pos = {}
        ok = len(u0) == len(u1)
        if ok:
            for k, (x, y) in enumerate(zip(u0, u1)):
                if x != y:
                    if x[0] == 'I' and y[0] == 'X' and x[1] == y[1] and x[1][0] not in pos:
                        pos[x[1][0]] = k
                    else:
                        ok = False
        ctx.check('C09.structure', ok and sorted(pos) == list(range(n)), {'spec': spec_base, 'differing_positions': {str(q): k for q, k in pos.items()},
                                                                            'what': 'all-ZERO and all-ONE exports must differ by I->X at exactly one position per qubit'})
        if not (ok and sorted(pos) == list(range(n))):
            return
        # every single flip lands on its own position only
        for q in range(n):
            data = [1 if data_q[i] == q else 0 for i in range(d)]
            anc = [1 if anc_q[i] == q else 0 for i in range(d - 1)]
            uq = export_units(build(spec_base, data, anc))
            diff = [k for k, (x, y) in enumerate(zip(u0, uq)) if x != y]
            ctx.check('C09.structure', len(uq) == len(u0) and diff == [pos[q]] and uq[pos[q]][0] == 'X', {'spec': spec_base, 'flipped_qubit': q, 'differing': diff, 'expected': pos[q]})
        for q in range(n):
            bools[f'b{q}'] = ctx.bool_(f'b{q}') if ctx.mode == 'sym' else bool(ctx.model_in.get(f'b{q}', False))
        b = {q: tableau.var(f'b{q}') for q in data_q}
        a = {q: tableau.var(f'b{q}') for q in anc_q}
        variants = [('built', one)]
        cond_x = {pos[q]: tableau.var(f'b{q}') for q in range(n)}
    base = variants[0][1]
    results = []
    for name in ('built', 'unrolled', 'flattened'):
        if name == 'built':
            c = base
        elif name == 'unrolled':
            c = base.apply_modifiers()
        else:
            c = base.flatten()
        units = export_units(c)
        cx = {}
        if cond_x:
            # positions are re-identified in this variant: the k-th X on qubit q that sits between the heralded measurements and the first round
            xs = {}
            for k, (nm, tg, _) in enumerate(units):
                if nm == 'X' and tg and tg[0] not in xs:
                    xs[tg[0]] = k
            cx = {xs[q]: tableau.var(f'b{q}') for q in range(n) if q in xs}
            if len(cx) != n:
                ctx.check('C09.structure', False, {'variant': name, 'what': 'initial-state X gates not found after transformation'})
                continue
        plan = measurement_plan(c if name != 'built' else c)
        # the listing of the *built* circuit does not repeat sub-circuits: use the unrolled plan for the record of all variants
        results.append((name, units, cx, c))
    plan = None
    for name, units, cx, c in results:
        if name == 'unrolled':
            plan = measurement_plan(c)
    if plan is None:
        plan = measurement_plan(base)
    want = prescribed(plan, d, cycles, b, a, refocus)
    for name, units, cx, c in results:
        counter[0] = 0
        t, dets, obs = tableau.run_units(units, n, fresh, cx)
        if ctx.mode != 'conc':
            ctx.stats['model_steps'] = ctx.stats.get('model_steps', 0) + len(units)   # tableau updates executed (evidence: transitions)
        info = {'variant': name, 'spec': spec_base, 'mode': params['mode'], 'data': params.get('data'), 'ancilla': params.get('ancilla')}
        ctx.observe(f'{name}.n_meas', len(t.record))
        ctx.check('C09.record.length', len(t.record) == len(want), dict(info, measured=len(t.record), prescribed=len(want)))
        bad = []
        conds = []
        for k, (got, w) in enumerate(zip(t.record, want)):
            if w is None:
                continue
            c_ = forms_equal(ctx, got, w, bools)
            conds.append(c_)
            if c_ is False or (got != w):
                bad.append({'index': k, 'qubit': plan[k][0], 'tag': plan[k][1], 'occurrence': plan[k][2], 'measured': _show(got), 'prescribed': _show(w)})
        ctx.check('C09.record', s_and(*conds), dict(info, mismatches=bad[:6], ancilla_state_requested=bool(params.get('ancilla')) or params['mode'] == 'sym',
                                                   only_ancilla_state_terms_missing=_only_ancilla_missing(t.record, want, anc_q)))
        rnd = lambda f: any(v.startswith('m') for v in f[1])  # noqa: E731
        ctx.check('C09.detectors.deterministic', not any(rnd(f) for f in dets), dict(info, random_detectors=[i for i, f in enumerate(dets) if rnd(f)][:8], random_measurements=t.random_measurements))
        ctx.check('C09.detectors.lookback', not t.bad_lookbacks, dict(info, outside_record=t.bad_lookbacks[:6]))
        ctx.check('C09.detectors.count', len(dets) == (d - 1) * (cycles + 1), dict(info, detectors=len(dets), expected=(d - 1) * (cycles + 1)))
        ctx.check('C09.observable.deterministic', len(obs) >= 1 and not any(rnd(f) for f in obs), dict(info, observables=len(obs)))
        # detectors are silent for the prescribed record: parity independent of everything but possibly the initial state, and equal to its noiseless value
        if ctx.mode == 'conc':
            real_c = c
            if params['mode'] == 'sym':
                # the twin builds the real circuit for the model's state vector: validates the I/X product structure on this vector
                rb = build(spec_base, [int(bool(bools[f'b{q}'])) for q in data_q], [int(bool(bools[f'b{q}'])) for q in anc_q])
                real_c = rb if name == 'built' else (rb.apply_modifiers() if name == 'unrolled' else rb.apply_modifiers().flatten())
            check_against_stim(ctx, real_c, t, bools, info)
        else:
            ctx.check('C09.tableau_vs_stim', True)


def _show(f):
    return f"{f[0]}" + "".join(f"^{v}" for v in sorted(f[1]))


def _only_ancilla_missing(record, want, anc_q):
    """fingerprint helper: every mismatch vanishes when the ancilla initial-state variables/constants are dropped from the prescription"""
    names = {f'b{q}' for q in anc_q}
    for got, w in zip(record, want):
        if w is None:
            continue
        w2 = (w[0], frozenset(v for v in w[1] if v not in names))
        if got != w and got != w2:
            return False
    return True


def check_against_stim(ctx, c, t, bools, info):
    """Concrete twin only: the tableau's record (all variables have values) must equal what stim's own sampler returns for the real export."""
    import stim  # noqa
    from qce_circuit.addon_stim.factory_manager import to_stim
    real = to_stim(c)
    sample = real.compile_sampler().sample(1)[0]
    mine = [form_to_cond(ctx, f, bools) for f in t.record]
    same = len(sample) == len(mine) and all(bool(x) == bool(y) for x, y in zip(sample, mine)) if t.random_measurements == 0 else True
    ctx.check('C09.tableau_vs_stim', same, dict(info, stim=[int(x) for x in sample][:40], tableau=[int(bool(x)) for x in mine][:40]))
