"""
C05 -- copies are faithful and independent.

Real code executed symbolically: copy() of all 26 operation classes (structure/circuit_operations.py and
addon_stim/circuit_operations.py), CircuitCompositeOperation.copy, RelationLink.copy, MultiRelationLink.copy,
RegistryAcquisitionStrategy.copy, DeclarativeCircuit.add_sub_circuit, and the scheduling stack that reads the copies.
Durations, detector/observable record fields and coordinate shifts are symbolic; the copy is compared with the original field by
field, by schedule (solver equality of start/end terms), by relation structure (type, and "reference maps to the corresponding
copied operation") and by acquisition index; then one side is mutated and the other side's observations must be unchanged terms.
"""
from __future__ import annotations

import dataclasses

from symx.core import Sym, s_and, s_or
from . import common as cm
from qce_circuit.language.declarative_circuit import DeclarativeCircuit
from qce_circuit.structure import circuit_operations as co
from qce_circuit.addon_stim import circuit_operations as so
from qce_circuit.structure.intrf_circuit_operation import RelationLink, RelationType, QubitChannel
from qce_circuit.structure.intrf_circuit_operation_composite import CircuitCompositeOperation
from qce_circuit.structure.registry_duration import FixedDurationStrategy
from qce_circuit.structure.registry_repetition import FixedRepetitionStrategy

PROPERTY = 'C05'
GLOBAL_1Q = ['Reset', 'Identity', 'Hadamard', 'Rx180', 'Rx90', 'Rxm90', 'Ry180', 'Ry90', 'Rym90', 'Rx180ef', 'VirtualPhase', 'VirtualPark', 'Rphi90']
CLASSES = ['SingleQubitOperation', 'Wait', 'VirtualVacant', 'VirtualEmpty'] + GLOBAL_1Q + \
          ['TwoQubitOperation', 'CPhase', 'TwoQubitVirtualPhase', 'VirtualTwoQubitVacant', 'DispersiveMeasure', 'Barrier',
           'CoordinateShiftOperation', 'DetectorOperation', 'LogicalObservableOperation']
FUNCTIONS = [f'{c}.copy' for c in CLASSES] + ['CircuitCompositeOperation.copy', 'RelationLink.copy', 'MultiRelationLink.copy',
                                              'RegistryAcquisitionStrategy.copy', 'DeclarativeCircuit.add_sub_circuit', 'CircuitCompositeOperation.repeat']
BOUNDS = {'quick': "each of the 26 classes as 2nd step of a 3-step circuit [Wait a; X; Wait z FOLLOWED_BY X], X placed implicitly / FOLLOWED_BY / JOINED_START / "
                   "JOINED_END a, every constructor field set to a non-default (symbolic where numeric) value; copy by nesting and by copy(); "
                   "mutations afterwards: add to original, add to the circuit holding the copy, apply_modifiers on a repeated original; "
                   "5 unrolled circuits (repeated blocks of 2..3 parallel operations, counts 2..3, registry durations) copied by nesting and by copy(), "
                   "group links compared member by member, schedules compared again after every registry duration got a fresh symbolic value",
          'thorough': "as quick, additionally X as 1st and 3rd step, nesting depth 2 (copy of a copy), repetition count 2 on the copied circuit, all 4 channels for the channel-parameterised classes"}
OUTSIDE = ["operation classes defined by users", "DynamicDurationStrategy callables", "relations to operations outside the copied circuit"]
ASSUMPTIONS = ["memo caches start empty", "hash(Sym) constant / == decided by the solver",
               "Barrier / CoordinateShiftOperation get their relation through the public relation_link setter (their constructors take none)"]
REQUIRED_REACH = ['C05.length', 'C05.class', 'C05.fields', 'C05.channels', 'C05.duration', 'C05.relation_type', 'C05.relation_target', 'C05.schedule',
                  'C05.acquisition', 'C05.independent.original_mutated', 'C05.independent.copy_mutated', 'C05.independent.unrolled', 'C05.distinct_objects',
                  'C05.relation_group', 'C05.schedule.after_duration_change', 'C05.repetition.follows_registry']
EXHAUSTIVE = {'quick': True, 'thorough': True}
JOB_OPTS = {'quick': dict(max_paths=3000, max_seconds=300), 'thorough': dict(max_paths=20000, max_seconds=900)}

CHAN = {'ALL': QubitChannel.ALL, 'MW': QubitChannel.MICROWAVE, 'FL': QubitChannel.FLUX, 'RO': QubitChannel.READOUT}


def jobs(tier, seed):
    out = []
    positions = [1] if tier == 'quick' else [0, 1, 2]
    chans = ['FL'] if tier == 'quick' else ['ALL', 'MW', 'FL', 'RO']
    for cls in CLASSES:
        for rel in (None, 'F', 'S', 'E'):
            for pos in positions:
                if pos == 0 and rel is not None:
                    continue
                cs = chans if cls in ('Wait', 'VirtualVacant', 'VirtualEmpty', 'VirtualTwoQubitVacant') else ['FL']
                for ch in cs:
                    for how in (['nest', 'copy'] if tier == 'quick' else ['nest', 'copy', 'nest2', 'rep2']):
                        out.append({'cls': cls, 'rel': rel, 'pos': pos, 'ch': ch, 'how': how})
    # copies of *unrolled* circuits (their operations are chained by MultiRelationLink groups), durations looked up in a registry
    # whose values change after the copy was made
    for prog in UNROLLED:
        for how in ('nest', 'copy'):
            out.append({'unrolled': prog, 'how': how})
    for how in ('nest', 'copy'):
        for n0 in (1, 2):
            out.append({'registry_count': True, 'how': how, 'n0': n0})
    return out


def _st(k, rel=None):
    return {'k': k, 'rel': rel}


UNROLLED = [
    {'steps': [_st(['S', {'steps': [_st(['R', 0, 'ALL']), _st(['R', 1, 'ALL'])], 'rep': 2}])]},
    {'steps': [_st(['S', {'steps': [_st(['R', 0, 'ALL']), _st(['R', 1, 'ALL']), _st(['W', 2, 'ALL'])], 'rep': 3}])]},
    {'steps': [_st(['W', 0, 'ALL']), _st(['S', {'steps': [_st(['R', 0, 'ALL']), _st(['R', 1, 'MW'])], 'rep': 2}]), _st(['R', 1, 'ALL'])]},
    {'steps': [_st(['R', 0, 'ALL']), _st(['R', 1, 'ALL'])], 'rep': 2},
    {'steps': [_st(['S', {'steps': [_st(['R', 0, 'ALL']), _st(['G', 'Rx180', [1]]), _st(['R', 0, 'MW'], ['S', 1])], 'rep': 2}])]},
]


def group_indices(link, ops):
    """Listing positions of the members of a MultiRelationLink group (a nested block counts by the positions of its operations)."""
    out = []
    for m in getattr(link, '_reference_nodes', None) or []:
        if isinstance(m, CircuitCompositeOperation):
            inner = m.decomposed_operations()
            out.append(sorted(k for k, o in enumerate(ops) if any(o is x for x in inner)))
        else:
            out.append([k for k, o in enumerate(ops) if o is m])
    return sorted(out)


def run_unrolled(ctx, params):
    g = cm.Globals(ctx)
    how = params['how']
    with g.override():
        built = cm.build(ctx, params['unrolled'])
        c1 = built.circuit.apply_modifiers()
        ops1 = c1.operations
        if how == 'copy':
            copied = c1.circuit_structure.copy()
            lister = copied.decomposed_operations
        else:
            c2 = DeclarativeCircuit()
            copied = c2.add(c1)
            lister = lambda: c2.operations   # noqa: E731
        ops2 = lister()
        info0 = {'how': how, 'unrolled': True}
        ctx.check('C05.length', len(ops1) == len(ops2), dict(info0, original=[type(o).__name__ for o in ops1], copy=[type(o).__name__ for o in ops2]))
        if len(ops1) != len(ops2):
            return
        t1, t2 = observe(ops1), observe(ops2)
        ctx.check('C05.schedule', same_times(t1, t2), dict(info0, original=t1, copy=t2))
        for i, (a, b) in enumerate(zip(ops1, ops2)):
            la, lb = a.relation_link, b.relation_link
            ga, gb = group_indices(la, ops1), group_indices(lb, ops2)
            ctx.check('C05.relation_group', type(la) is type(lb) and ga == gb,
                      dict(info0, index=i, original_link=type(la).__name__, copy_link=type(lb).__name__, original_group=ga, copy_group=gb))
        # the durations change afterwards (shared registry): copy and original keep the same schedule
        for key in built.reg_keys:
            built.registry.set_registry_at(key, ctx.real('w_' + key, lo=0))
        t1b, t2b = observe(c1.operations), observe(lister())
        ctx.check('C05.schedule.after_duration_change', same_times(t1b, t2b), dict(info0, original=t1b, copy=t2b))


def make_op(ctx, cls, circuit, relation, ch, tag='x'):
    """Instance of `cls` with every constructor field set to a non-default value."""
    kw = {}
    if relation is not None and cls not in ('Barrier', 'CoordinateShiftOperation'):
        kw['relation'] = relation
    d = lambda: FixedDurationStrategy(ctx.real(f'd_{tag}', lo=0))  # noqa: E731
    if cls == 'SingleQubitOperation':
        op = co.SingleQubitOperation(0, duration_strategy=d(), **kw)
    elif cls in ('Wait', 'VirtualVacant', 'VirtualEmpty'):
        op = getattr(co, cls)(0, qubit_channel=CHAN[ch], duration_strategy=d(), **kw)
    elif cls in GLOBAL_1Q:
        op = getattr(co, cls)(0, **kw)
    elif cls == 'TwoQubitOperation':
        op = co.TwoQubitOperation(0, 1, duration_strategy=d(), **kw)
    elif cls in ('CPhase', 'TwoQubitVirtualPhase'):
        op = getattr(co, cls)(0, 1, **kw)
    elif cls == 'VirtualTwoQubitVacant':
        op = co.VirtualTwoQubitVacant(0, 1, qubit_channel=CHAN[ch], duration_strategy=d(), **kw)
    elif cls == 'DispersiveMeasure':
        op = co.DispersiveMeasure(0, acquisition_strategy=circuit.get_acquisition_strategy(), acquisition_tag='tagged', **kw)
    elif cls == 'Barrier':
        op = co.Barrier([0, 1])
    elif cls == 'CoordinateShiftOperation':
        op = so.CoordinateShiftOperation(qubit_indices=[0, 1], time_shift=ctx.choice('ts', [3]), space_shift=ctx.choice('ss', [2]))
    elif cls == 'DetectorOperation':
        op = so.DetectorOperation(0, last_acquisition_index=ctx.int_('lai', lo=0), main_target=ctx.int_('mt', lo=0), secondary_target=ctx.int_('st', lo=0),
                                  reference_offset=ctx.int_('ro', lo=0), secondary_offset=ctx.int_('so', lo=0), **kw)
    elif cls == 'LogicalObservableOperation':
        op = so.LogicalObservableOperation(0, last_acquisition_index=ctx.int_('lai', lo=0), main_target=ctx.int_('mt', lo=0), **kw)
    else:
        raise ValueError(cls)
    if relation is not None and cls in ('Barrier', 'CoordinateShiftOperation'):
        op.relation_link = relation
    return op


def build_original(ctx, params, rep=1):
    kw = {'repetition_strategy': FixedRepetitionStrategy(rep)} if rep != 1 else {}
    c1 = DeclarativeCircuit(**kw)
    pos = params['pos']
    steps = []
    a = None
    x = None
    for i in range(3):
        if i == pos:
            rel = None
            if params['rel'] is not None and a is not None:
                rel = RelationLink(a, cm.REL[params['rel']])
            x = c1.add(make_op(ctx, params['cls'], c1, rel, params['ch']))
            steps.append(x)
        elif x is None:
            a = c1.add(co.Wait(0, duration_strategy=FixedDurationStrategy(ctx.real(f'd_a{i}', lo=0))))
            steps.append(a)
        else:
            z = c1.add(co.Wait(0, duration_strategy=FixedDurationStrategy(ctx.real(f'd_z{i}', lo=0)), relation=RelationLink(x, RelationType.FOLLOWED_BY)))
            steps.append(z)
    # a measurement at the end so that acquisition indices exist for every class under test
    c1.add(co.DispersiveMeasure(1, acquisition_strategy=c1.get_acquisition_strategy(), acquisition_tag='end'))
    return c1


SKIP_FIELDS = {'relation', 'acquisition_strategy', '_acquisition_identifier', 'duration_strategy'}


def field_report(a, b):
    """(all_equal_condition, differing_field_names) over the dataclass fields that describe the operation itself."""
    conds, names = [], []
    for f in dataclasses.fields(a):
        if f.name in SKIP_FIELDS:
            continue
        va, vb = getattr(a, f.name), getattr(b, f.name, '<missing>')
        c = (va == vb)
        conds.append(c)
        if c is False:
            names.append(f.name)
    return s_and(*conds), names


def observe(ops):
    return [(o.start_time, o.end_time) for o in ops]


def same_times(t1, t2):
    return len(t1) == len(t2) and s_and(*[s_and(a[0] == b[0], a[1] == b[1]) for a, b in zip(t1, t2)])


def run_registry_count(ctx, params):
    """A block whose count is looked up in a RepetitionRegistry is copied; afterwards the registry changes: original and copy keep
    reporting the same count and unroll to the same operation sequence (the copy is independent of *mutations*, not of shared settings)."""
    from qce_circuit.structure.registry_repetition import RegistryRepetitionStrategy, RepetitionRegistry
    g = cm.Globals(ctx)
    with g.override():
        reg = RepetitionRegistry()
        reg.set_registry_at('n', params['n0'])
        blk = DeclarativeCircuit(repetition_strategy=RegistryRepetitionStrategy(registry=reg, registry_key='n'))
        blk.add(co.Wait(0, duration_strategy=FixedDurationStrategy(ctx.real('d_a', lo=0))))
        blk.add(co.Rx180(0))
        parent = DeclarativeCircuit()
        parent.add(co.Wait(0, duration_strategy=FixedDurationStrategy(ctx.real('d_p', lo=0))))
        original = parent.add(blk)            # the block as it lives in `parent`
        if params['how'] == 'copy':
            copied = original.copy()
        else:
            holder = DeclarativeCircuit()
            copied_parent = holder.add(parent)
            copied = [k for k in cm.composite_children(copied_parent) if isinstance(k, CircuitCompositeOperation)][0]
        info = {'how': params['how'], 'count_at_copy': params['n0']}
        ctx.check('C05.repetition.at_copy', original.nr_of_repetitions == copied.nr_of_repetitions == params['n0'], info)
        for new in (3, 1, 2):
            reg.set_registry_at('n', new)
            ctx.check('C05.repetition.follows_registry', original.nr_of_repetitions == new and copied.nr_of_repetitions == new,
                      dict(info, registry=new, original=original.nr_of_repetitions, copy=copied.nr_of_repetitions))
        n_orig = len(original.copy().apply_modifiers_to_self().decomposed_operations())
        n_copy = len(copied.copy().apply_modifiers_to_self().decomposed_operations())
        ctx.check('C05.repetition.unrolled_length', n_orig == n_copy == 4, dict(info, original=n_orig, copy=n_copy, expected=4))


def run(ctx, params):
    if 'unrolled' in params:
        return run_unrolled(ctx, params)
    if params.get('registry_count'):
        return run_registry_count(ctx, params)
    g = cm.Globals(ctx)
    how = params['how']
    with g.override():
        c1 = build_original(ctx, params, rep=2 if how == 'rep2' else 1)
        ops1 = c1.operations
        t1 = observe(ops1)
        ctx.observe('orig.n', len(ops1))
        if how == 'copy':
            holder = DeclarativeCircuit()
            copied = c1.circuit_structure.copy()
            ops2 = copied.decomposed_operations()
            c2 = None
        else:
            c2 = DeclarativeCircuit()
            copied = c2.add(c1)
            if how == 'nest2':
                c3 = DeclarativeCircuit()
                copied = c3.add(c2)
                c2 = c3
            ops2 = c2.operations
        t2 = observe(ops2)
        info0 = {'cls': params['cls'], 'rel': params['rel'], 'how': how}
        ctx.check('C05.length', len(ops1) == len(ops2), dict(info0, original=[type(o).__name__ for o in ops1], copy=[type(o).__name__ for o in ops2]))
        ctx.check('C05.distinct_objects', not any(a is b for a in ops1 for b in ops2) and copied is not c1.circuit_structure, info0)
        for i, (a, b) in enumerate(zip(ops1, ops2)):
            info = dict(info0, index=i, original=type(a).__name__, copy=type(b).__name__)
            ctx.check('C05.class', type(a) is type(b), info)
            if type(a) is not type(b):
                continue
            cond, names = field_report(a, b)
            ctx.check('C05.fields', cond, dict(info, differing=names))
            ca = [(c.id, c.channel.name) for c in a.channel_identifiers]
            cb = [(c.id, c.channel.name) for c in b.channel_identifiers]
            ctx.check('C05.channels', ca == cb, dict(info, original_channels=ca, copy_channels=cb))
            ctx.check('C05.duration', a.duration == b.duration, dict(info, original_duration=a.duration, copy_duration=b.duration))
            la, lb = a.relation_link, b.relation_link
            ra, rb = la.reference_node, lb.reference_node
            ctx.check('C05.relation_type', (ra is None) == (rb is None) and (ra is None or la.relation_type == lb.relation_type),
                      dict(info, original_relation=None if ra is None else la.relation_type.name, copy_relation=None if rb is None else lb.relation_type.name))
            if ra is not None and rb is not None:
                ia = [k for k, o in enumerate(ops1) if o is ra]
                ib = [k for k, o in enumerate(ops2) if o is rb]
                ctx.check('C05.relation_target', ia == ib and len(ib) == 1, dict(info, original_ref_index=ia, copy_ref_index=ib))
            if hasattr(a, 'circuit_level_acquisition_index') and how != 'copy':   # a raw copy() stays bound to the original's registry (repeat() relies on it)
                ctx.check('C05.acquisition', a.circuit_level_acquisition_index == b.circuit_level_acquisition_index and a.acquisition_index == b.acquisition_index
                          and a.acquisition_index >= 0, dict(info, original_index=a.circuit_level_acquisition_index, copy_index=b.circuit_level_acquisition_index))
        if how == 'rep2':
            ctx.check('C05.repetition', copied.nr_of_repetitions == 2, info0)
        ctx.check('C05.schedule', same_times(t1, t2), dict(info0, original=t1, copy=t2))
        ctx.check('C05.duration_total', c1.duration == copied.duration, dict(info0, original=c1.duration, copy=copied.duration))
        # ---- independence ------------------------------------------------------------------------------------------
        extra_d = ctx.real('d_extra', lo=0)
        c1.add(co.Wait(0, duration_strategy=FixedDurationStrategy(extra_d)))
        ops2b = copied.decomposed_operations() if c2 is None else c2.operations
        ctx.check('C05.independent.original_mutated', len(ops2b) == len(ops2) and all(x is y for x, y in zip(ops2, ops2b)) and same_times(observe(ops2b), t2),
                  dict(info0, before=t2, after=observe(ops2b)))
        ops1b = c1.operations
        t1b = observe(ops1b)
        if c2 is not None:
            c2.add(co.Wait(0, duration_strategy=FixedDurationStrategy(ctx.real('d_extra2', lo=0))))
            c2.add(co.Wait(5, duration_strategy=FixedDurationStrategy(ctx.real('d_extra3', lo=0))))
        else:
            copied.add(co.Wait(0, duration_strategy=FixedDurationStrategy(ctx.real('d_extra2', lo=0))))
        ops1c = c1.operations
        ctx.check('C05.independent.copy_mutated', len(ops1c) == len(ops1b) and all(x is y for x, y in zip(ops1b, ops1c)) and same_times(observe(ops1c), t1b),
                  dict(info0, before=t1b, after=observe(ops1c)))
        # unrolling one side leaves the other alone
        before = observe(copied.decomposed_operations() if c2 is None else c2.operations)
        n_before = len(before)
        c1.apply_modifiers()
        after_ops = copied.decomposed_operations() if c2 is None else c2.operations
        ctx.check('C05.independent.unrolled', len(after_ops) == n_before and same_times(observe(after_ops), before), dict(info0, before=before, after=observe(after_ops)))
