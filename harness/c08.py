"""
C08 -- the Stim export is the in-order image of the circuit.

Real code executed symbolically: StimCircuitFactoryManager.construct (recursive walk, `+= inner * nr_of_repetitions`), the 15-entry
factory table, get_qubit_index, NameBased/Tick/Detector/Observable/CoordinateShift factories,
DetectorOperation/LogicalObservableOperation/CoordinateShiftOperation.to_stim_instruction, to_stim; apply_modifiers for the
before/after clause.  The record fields of detectors and observables are unbounded symbolic integers (all five target-shape
branches plus the fall-through are enumerated); the program shape (all 26 operation classes, nesting, repetition) is enumerated.
On symbolic paths the exporter writes into `fakestim`; the concrete twin runs the real stim and both are compared in a normal form.

Oracle: independent translation of the *program* (own copy of the documented gate table), walked in the library's node order,
sub-circuits expanded in place times their count, unsupported classes omitted, nothing else; detector/observable lookbacks as
integer terms.
"""
from __future__ import annotations

import collections
import random

from symx import fakestim
from symx.core import Sym, s_and
from . import common as cm
from . import gen
from . import lib
from qce_circuit.structure.intrf_circuit_operation_composite import CircuitCompositeOperation

PROPERTY = 'C08'
FUNCTIONS = ['StimCircuitFactoryManager.construct', 'StimCircuitFactoryManager.contains/supported_factories', 'StimFactoryManager (table)', 'to_stim',
             'NameBasedOperationsFactory.construct', 'get_qubit_index', 'TickOperationsFactory.construct', 'DetectorOperation.to_stim_instruction',
             'LogicalObservableOperation.to_stim_instruction', 'CoordinateShiftOperation.to_stim_instruction', 'DeclarativeCircuit.apply_modifiers']
BOUNDS = {'quick': "every one of the 26 classes alone and inside a repeated sub-circuit (count 1..3); 600 seeded random programs over all classes with <= 4 steps per "
                   "circuit, nesting <= 2, counts 1..3; detector shapes: all 5 target shapes + fall-through with unbounded symbolic record fields; library circuits "
                   "d in {2,3}, cycles 0..5 for the before/after-unrolling clause",
          'thorough': "30000 random programs with <= 5 steps, nesting <= 3; library circuits d <= 5, cycles 0..9, sub-chains of the shipped layouts"}
OUTSIDE = ["stim's own parsing and fusing of adjacent instructions (the comparison is made after splitting fused targets)", "non-integer coordinate shifts",
           "detector field combinations for which the lookback would be non-negative (stim rejects them)",
           "a LogicalObservableOperation without record fields (the fall-through builds OBSERVABLE_INCLUDE without its index argument, which real stim rejects with ValueError)"]
ASSUMPTIONS = ["fakestim stands for stim on symbolic paths (validated instruction by instruction against real stim by the concrete twin of every path)",
               "the documented gate of each supported class is the table of factory_manager.py, restated in this harness"]
REQUIRED_REACH = ['C08.image.after_extension', 'C08.image', 'C08.lookback', 'C08.unroll.multiset', 'C08.unroll.measurements', 'C08.library.identical']
EXHAUSTIVE = {'quick': False, 'thorough': False}
JOB_OPTS = {'quick': dict(max_paths=200, max_seconds=300), 'thorough': dict(max_paths=200, max_seconds=900)}

TABLE = {'Reset': 'R', 'Barrier': 'TICK', 'Hadamard': 'H', 'Identity': 'I', 'CPhase': 'CZ', 'DispersiveMeasure': 'M', 'Rx180': 'X', 'Rx90': 'SQRT_X',
         'Rxm90': 'SQRT_X_DAG', 'Ry180': 'Y', 'Ry90': 'SQRT_Y', 'Rym90': 'SQRT_Y_DAG'}
DET_SHAPES = [['lai', 'main'], ['lai', 'main', 'ref'], ['lai', 'main', 'sec'], ['lai', 'main', 'sec', 'ref'], ['lai', 'main', 'sec', 'ref', 'so'], ['lai'], []]
ONE_Q = ['Reset', 'Identity', 'Hadamard', 'Rx180', 'Rx90', 'Rxm90', 'Ry180', 'Ry90', 'Rym90', 'Rx180ef', 'VirtualPhase', 'VirtualPark', 'Rphi90']


def alphabet():
    a = [['W', 0, 'ALL'], ['W', 1, 'MW'], ['V', 'VirtualVacant', 0, 'FL'], ['V', 'VirtualEmpty', 1, 'ALL'], ['V', 'SingleQubitOperation', 0, 'ALL'],
         ['T', 'TwoQubitOperation', [0, 1], 'ALL'], ['T', 'VirtualTwoQubitVacant', [0, 2], 'FL'], ['G', 'CPhase', [0, 1]], ['G', 'CPhase', [2, 1]],
         ['G', 'TwoQubitVirtualPhase', [0, 1]], ['M', 0, 'a'], ['M', 2, 'b'], ['B', [0, 1]], ['B', [0, 1, 2]], ['SHIFT', [0, 1], 2, 1], ['SHIFT', [0, 1, 2], 0, 3],
         ['OBS', 0, ['lai', 'main']], ['OBS', 1, ['lai', 'main']]]
    a += [['G', c, [q]] for c in ONE_Q for q in (0, 2)]
    a += [['DET', q, sh] for q, sh in zip((0, 1, 2, 0, 1, 2, 0), DET_SHAPES)]
    return a


def jobs(tier, seed):
    rng = random.Random(seed + 8)
    alpha = alphabet()
    out = []
    for k in alpha:
        out.append({'prog': {'steps': [{'k': k, 'rel': None}]}})
        for rep in (1, 2, 3):
            out.append({'prog': {'steps': [{'k': ['G', 'Rx180', [1]], 'rel': None}, {'k': ['S', {'steps': [{'k': k, 'rel': None}, {'k': ['G', 'Ry90', [0]], 'rel': None}], 'rep': rep}], 'rel': None},
                                           {'k': ['M', 1, 'z'], 'rel': None}]}})
    n, steps, depth = (600, 4, 2) if tier == 'quick' else (30000, 5, 3)
    for _ in range(n):
        p = gen.random_program(rng, alpha, steps, depth, types='FSE', p_sub=0.3, p_rel=0.3, reps=(1, 2, 3), sub_rel=False)
        if gen.count_leaves(p) <= 40:
            out.append({'prog': p, 'again': True} if _ % 3 == 0 else {'prog': p})
    dmax, cmax = (3, 5) if tier == 'quick' else (5, 9)
    for d in range(2, dmax + 1):
        for cycles in range(0, cmax + 1):
            out.append({'library': {'kind': 'full', 'd': d, 'cycles': cycles}})
            if cycles >= 1:
                out.append({'library': {'kind': 'simplified', 'd': d, 'cycles': cycles}})
    if tier != 'quick':
        for name in lib.LAYOUTS:
            for sc in lib.sub_chains(name, 2, 3):
                for cycles in (0, 2, 4):
                    out.append({'library': {'kind': 'full', 'd': (len(sc) + 1) // 2, 'cycles': cycles, 'desc': {'layout': name, 'involved': sc}}})
    return out


def translate(node) -> list:
    """Expected units (normal form) of one leaf step, from the program."""
    k = node.kind
    if k[0] == 'G' and k[1] in TABLE:
        name = TABLE[k[1]]
        if name == 'CZ':
            return [(name, list(k[2]), [])]
        return [(name, [q], []) for q in k[2]]
    if k[0] == 'M':
        return [('M', [k[1]], [])]
    if k[0] == 'B':
        return [('TICK', [], [])]
    if k[0] == 'SHIFT':
        return [('SHIFT_COORDS', [], [float(k[2]), float(k[3])])]
    if k[0] == 'OBS':
        f = node.fields
        if 'main_target' in f and 'last_acquisition_index' in f:
            return [('OBSERVABLE_INCLUDE', [('rec', f['main_target'] - (f['last_acquisition_index'] + 1))], [0])]
        return [('OBSERVABLE_INCLUDE', [], [])]
    if k[0] == 'DET':
        f = node.fields
        lai = f.get('last_acquisition_index')
        m = f['main_target'] - (lai + 1) if 'main_target' in f else None
        s = f['secondary_target'] - (lai + 1) if 'secondary_target' in f else None
        ref, so = f.get('reference_offset'), f.get('secondary_offset')
        if m is None:
            return [('DETECTOR', [], [])]
        if s is None and ref is None:
            t = [m]
        elif s is None:
            t = [m, m - ref]
        elif ref is None:
            t = [m, s]
        elif so is None:
            t = [m, s, -ref]
        else:
            t = [m, s, -ref, -ref - so]
        return [('DETECTOR', [('rec', x) for x in t], [k[1], 0])]
    return []   # unsupported by the exporter: omitted


def expected(comp, by_obj) -> list:
    out = []
    for child in cm.composite_children(comp):
        if isinstance(child, CircuitCompositeOperation):
            out.extend(expected(child, by_obj) * child.nr_of_repetitions)
        else:
            node = by_obj.get(id(child))
            out.extend(translate(node) if node is not None else [('<unknown operation>', [], [])])
    return out


def units_equal(a, b):
    """(condition, first differing index): names/shapes ground, numeric targets and args as (possibly symbolic) equalities."""
    if len(a) != len(b):
        return False, min(len(a), len(b))
    conds = []
    for i, (x, y) in enumerate(zip(a, b)):
        if x[0] != y[0] or len(x[1]) != len(y[1]) or len(x[2]) != len(y[2]):
            return False, i
        for tx, ty in zip(x[1], y[1]):
            rx, ry = isinstance(tx, tuple), isinstance(ty, tuple)
            if rx != ry:
                return False, i
            conds.append((tx[1] == ty[1]) if rx else (tx == ty))
        for ax, ay in zip(x[2], y[2]):
            conds.append(ax == ay)
        if any(c is False for c in conds):
            return False, i
    return s_and(*conds), None


def freeze(units):
    return [(n, tuple(map(repr, t)), tuple(map(repr, a))) for n, t, a in units]


def run(ctx, params):
    from qce_circuit.addon_stim.factory_manager import to_stim
    sym = ctx.mode == 'sym'
    if 'library' in params:
        c = lib.build(params['library'])
        with fakestim.installed(sym):
            before = fakestim.normal_form(to_stim(c))
            u = c.apply_modifiers()
            after = fakestim.normal_form(to_stim(u))
        ctx.observe('n_units', len(before))
        no_shift = lambda xs: [x for x in freeze(xs) if x[0] != 'SHIFT_COORDS']  # noqa: E731
        ctx.check('C08.library.identical', freeze(before) == freeze(after), {'spec': params['library'], 'n_before': len(before), 'n_after': len(after),
                                                                             'same_multiset': collections.Counter(freeze(before)) == collections.Counter(freeze(after)),
                                                                             'equal_without_shift_coords': no_shift(before) == no_shift(after)})
        ctx.check('C08.unroll.multiset', collections.Counter(freeze(before)) == collections.Counter(freeze(after)), {'spec': params['library']})
        ctx.check('C08.unroll.measurements', sum(1 for x in before if x[0] == 'M') == sum(1 for x in after if x[0] == 'M'), {'spec': params['library']})
        return
    built = cm.build(ctx, params['prog'])
    c = built.circuit
    by_obj = {id(n.obj): n for n in built.all_nodes if not n.is_sub}
    try:
        with fakestim.installed(sym):
            got = fakestim.normal_form(to_stim(c))
            rec = list(fakestim.REC_CHECKS)
    except (IndexError, ValueError) as ex:
        # real stim (concrete runs only) refuses the exported instruction, e.g. a non-negative record lookback
        ctx.observe('n_units', -1)
        ctx.observe('units', str(ex))
        ctx.check('C08.image', False, {'stim_refused': str(ex)})
        ctx.check('C08.lookback', False, {'stim_refused': str(ex)})
        ctx.check('C08.unroll.multiset', True)
        ctx.check('C08.unroll.measurements', True)
        return
    want = expected(c.circuit_structure, by_obj)
    ctx.observe('n_units', len(got))
    ctx.observe('units', [[n, [t[1] if isinstance(t, tuple) else t for t in ts], list(a)] for n, ts, a in got])
    cond, idx = units_equal(got, want)
    ctx.check('C08.image', cond, {'first_difference': idx, 'exported': freeze(got)[:30], 'expected': freeze(want)[:30]})
    if params.get('again'):
        # the export follows the circuit: the same circuit object, extended after it was exported once, is exported as it is now
        from qce_circuit.structure import circuit_operations as co_
        for kind in (['G', 'Rx180', [1]], ['M', 0, 'late']):
            nd = cm.Node({'k': kind, 'rel': None}, (len(built.nodes),))
            nd.obj = c.add(co_.Rx180(1) if kind[0] == 'G' else co_.DispersiveMeasure(0, acquisition_strategy=c.get_acquisition_strategy(), acquisition_tag='late'))
            built.nodes.append(nd); built.all_nodes.append(nd)
            by_obj[id(nd.obj)] = nd
        with fakestim.installed(sym):
            got2 = fakestim.normal_form(to_stim(c))
        want2 = expected(c.circuit_structure, by_obj)
        cond2, idx2 = units_equal(got2, want2)
        ctx.check('C08.image.after_extension', cond2, {'first_difference': idx2, 'exported': freeze(got2)[:30], 'expected': freeze(want2)[:30], 'n_first_export': len(got)})
        return
    if sym:
        ctx.check('C08.lookback', s_and(*[r < 0 for r in rec]), {'lookbacks': rec})
    else:
        ctx.check('C08.lookback', True)
    # exporting before and after unrolling: same multiset of instructions, same number of measurements
    u = c.apply_modifiers()
    with fakestim.installed(sym):
        after = fakestim.normal_form(to_stim(u))
    ca, cb = collections.Counter(freeze(got)), collections.Counter(freeze(after))
    ctx.check('C08.unroll.multiset', ca == cb, {'only_before': list((ca - cb).items())[:5], 'only_after': list((cb - ca).items())[:5]})
    ctx.check('C08.unroll.measurements', sum(1 for x in got if x[0] == 'M') == sum(1 for x in after if x[0] == 'M'), {})
