"""
C03 -- answers depend on the circuit, not on what was asked before.

Differential, on the same path and the same symbolic variables: history H (mutations interleaved with observations) against
H' = the same mutations without the intermediate observations.  The final observations (listing, start/end terms, duration,
acquisition indices, Stim program, times of a nested copy, times after unrolling) must be equal.  The oracle is the same real
code without the observations, so no scheduling model is involved and nothing beyond history-independence is demanded.
A second oracle covers the statement's "a time reported after ... a duration setting changed reflects the change": after a
registry / global-duration change the reported times must equal those of a circuit freshly built under the new setting.

Real code executed symbolically: everything of C01 plus DurationRegistry.set_registry_at, RegistryDurationStrategy,
temporary_override_get_registry_at, clear_lru_cache, plot_circuit (renderer stubbed) / construct_visual_description,
get_acquisition_indices, to_stim, DeclarativeCircuit.flatten.
"""
from __future__ import annotations

import contextlib
import itertools
import random

from symx.core import s_and, s_or
from . import common as cm
from . import gen
from qce_circuit.language.declarative_circuit import DeclarativeCircuit
from qce_circuit.structure import circuit_operations as co
from qce_circuit.structure.intrf_circuit_operation import RelationLink, RelationType
from qce_circuit.structure.registry_duration import FixedDurationStrategy, temporary_override_get_registry_at
from qce_circuit.structure.registry_repetition import FixedRepetitionStrategy
from qce_circuit.structure.intrf_acquisition_operation import IAcquisitionOperation
from qce_circuit.structure.intrf_circuit_operation_composite import CircuitCompositeOperation

PROPERTY = 'C03'
FUNCTIONS = ['RelationLink.get_start_time (lru_cache)', 'MultiRelationLink.get_start_time (lru_cache)', 'CircuitCompositeOperation.decomposed_operations (link hand-down)',
             'CircuitCompositeOperation.add/copy/repeat/extend/apply_modifiers_to_self/apply_flatten_to_self', 'DeclarativeCircuit.operations/duration/apply_modifiers/flatten/'
             'add_sub_circuit/get_acquisition_indices', 'DurationRegistry.set_registry_at', 'RegistryDurationStrategy.get_variable_duration',
             'temporary_override_get_registry_at', 'clear_lru_cache', 'plot_circuit', 'construct_visual_description', 'to_stim', 'AcquisitionRegistry.get_registry_at']
BOUNDS = {'quick': "base programs: flat <= 3 steps and nested (one or two sub-circuits, repetition 1..2) over {Wait q0, Wait q1, registry-Wait q0, Rx180 q0, Measure q1}; histories of <= 3 "
                   "events drawn from mutations {add op, add sub-circuit, apply_modifiers, flatten, set registry value, enter/leave global-duration override} and observations "
                   "{operations, times, duration, acquisition indices, visual description, plot_circuit, to_stim, nest a copy, list-and-keep the objects}; seeded sample of 700 "
                   "(program, history) pairs + ~150 hand-picked ones",
          'thorough': "histories of <= 5 events, programs <= 6 leaves, 8000 sampled pairs"}
OUTSIDE = ["user code assigning relation_link directly", "DynamicDurationStrategy callables", "matplotlib rendering (plot_circuit runs with the renderer stubbed)",
           "histories longer than the bound"]
ASSUMPTIONS = ["H and H' are built from the same symbolic variables in the same process, H first", "hash(Sym) constant / == decided by the solver (cache hit iff durations equal)"]
REQUIRED_REACH = ['C03.listing', 'C03.times', 'C03.duration', 'C03.acquisition', 'C03.stim', 'C03.nested_copy', 'C03.unrolled', 'C03.retained', 'C03.held', 'C03.reflects_change']
EXHAUSTIVE = {'quick': False, 'thorough': False}
JOB_OPTS = {'quick': dict(max_paths=3000, max_seconds=400), 'thorough': dict(max_paths=20000, max_seconds=1500)}
# random histories with many independent symbolic durations can exceed the per-job path budget; up to this many of the sampled jobs may be
# truncated (their explored paths are checked and counted, they are listed in the evidence) without making the run inconclusive
TRUNCATION_OK = {'quick': 8, 'thorough': 40}

ALPHA = [['W', 0, 'ALL'], ['W', 1, 'ALL'], ['R', 0, 'ALL'], ['G', 'Rx180', [0]], ['M', 1, 'a']]
ALPHA_IN = [['W', 0, 'ALL'], ['W', 1, 'ALL'], ['R', 0, 'ALL']]
OBS = ['ops', 'times', 'dur', 'acq', 'vis', 'plot', 'stim', 'nest']
MUT = ['add', 'addsub', 'grow', 'grownew', 'apply', 'flatten', 'setreg', 'enter', 'leave']


def jobs(tier, seed):
    rng = random.Random(seed + 33)
    n_pairs, max_events = (700, 3) if tier == 'quick' else (8000, 5)
    inner = list(gen.programs_upto(2, ALPHA_IN))
    flat = list(gen.programs_upto(2, ALPHA)) + gen.sample(gen.flat_programs(3, ALPHA), 600, seed)
    out = []
    # hand-picked seeds of known-interesting shapes (kept in addition to the random ones)
    two_subs = {'steps': [{'k': ['S', {'steps': [{'k': ['W', 0, 'ALL'], 'rel': None}]}], 'rel': None},
                          {'k': ['S', {'steps': [{'k': ['W', 1, 'ALL'], 'rel': None}]}], 'rel': None},
                          {'k': ['W', 0, 'ALL'], 'rel': ['F', 0]}]}
    out.append({'prog': two_subs, 'events': ['ops'], 'final': 'nest', 'name': 'two relation-less sub-circuits, list, then nest'})
    out.append({'prog': {'steps': [{'k': ['R', 0, 'ALL'], 'rel': None}, {'k': ['W', 0, 'ALL'], 'rel': None}]}, 'events': ['times', 'setreg'], 'name': 'registry change between queries'})
    chain = {'steps': [{'k': ['G', 'Rx180', [0]], 'rel': None}, {'k': ['W', 0, 'ALL'], 'rel': None}, {'k': ['M', 1, 'a'], 'rel': ['F', 1]}]}
    rep_block = {'steps': [{'k': ['S', {'steps': [{'k': ['W', 0, 'ALL'], 'rel': None}, {'k': ['G', 'Rx180', [0]], 'rel': None}], 'rep': 2}], 'rel': None}]}
    for prog in (chain, rep_block):
        for events in (['enter', 'times', 'leave'], ['times', 'enter', 'leave'], ['apply', 'enter', 'times', 'leave'], ['apply', 'plot'], ['plot'], ['enter', 'plot', 'leave']):
            for final in ('retained', 'times', 'unrolled'):
                out.append({'prog': prog, 'events': events, 'final': final, 'name': 'override entered and left around an observation'})
    par_block = {'steps': [{'k': ['S', {'steps': [{'k': ['W', 0, 'ALL'], 'rel': None}, {'k': ['G', 'Rx180', [1]], 'rel': None}], 'rep': 2}], 'rel': None}]}
    par_block3 = {'steps': [{'k': ['W', 1, 'ALL'], 'rel': None},
                            {'k': ['S', {'steps': [{'k': ['R', 0, 'ALL'], 'rel': None}, {'k': ['G', 'Rx180', [1]], 'rel': None}, {'k': ['M', 1, 'a'], 'rel': None}], 'rep': 3}], 'rel': None}]}
    for prog in (rep_block, par_block, par_block3, chain):
        for events in (['apply', 'hold', 'enter'], ['apply', 'enter', 'hold', 'leave'], ['apply', 'hold', 'setreg'], ['hold', 'enter'], ['enter', 'hold', 'leave'],
                       ['apply', 'hold', 'enter', 'leave'], ['flatten', 'hold', 'enter'], ['hold', 'setreg', 'enter']):
            out.append({'prog': prog, 'events': events, 'final': 'held', 'name': 'times re-read through kept operation objects after a duration setting changed'})
    unset = {'steps': [{'k': ['R', 0, 'ALL', 'unset'], 'rel': None}, {'k': ['W', 0, 'ALL'], 'rel': None}, {'k': ['W', 1, 'ALL'], 'rel': ['E', 0]}]}
    unset_sub = {'steps': [{'k': ['W', 0, 'ALL'], 'rel': None}, {'k': ['S', {'steps': [{'k': ['R', 0, 'ALL', 'unset'], 'rel': None}, {'k': ['W', 0, 'ALL'], 'rel': None}]}], 'rel': None},
                           {'k': ['W', 0, 'ALL'], 'rel': None}]}
    for prog in (unset, unset_sub):
        for events in (['times', 'setreg'], ['dur', 'setreg'], ['hold', 'setreg'], ['times', 'setreg', 'setreg'], ['plot', 'setreg'], ['setreg']):
            for final in ('duration_only', 'retained', 'held', 'times'):
                out.append({'prog': prog, 'events': events, 'final': final, 'name': 'a registry key is assigned for the first time after times were read'})
    meas_block = {'steps': [{'k': ['S', {'steps': [{'k': ['M', 1, 'a'], 'rel': None}, {'k': ['W', 0, 'ALL'], 'rel': None}], 'rep': 2}], 'rel': None}, {'k': ['M', 1, 'a'], 'rel': None}]}
    for events in (['acq', 'apply'], ['ops', 'acq', 'apply'], ['stim', 'apply'], ['acq', 'add', 'apply']):
        for final in ('times', 'stim'):
            out.append({'prog': meas_block, 'events': events, 'final': final, 'name': 'acquisition indices read before a repeated block with a measurement is unrolled'})
    deep = {'steps': [{'k': ['S', {'steps': [{'k': ['S', {'steps': [{'k': ['W', 0, 'ALL'], 'rel': None}], 'rep': 3}], 'rel': None}, {'k': ['W', 0, 'ALL'], 'rel': None}]}], 'rel': None},
                      {'k': ['W', 0, 'ALL'], 'rel': None}]}
    one_sub = {'steps': [{'k': ['S', {'steps': [{'k': ['W', 0, 'ALL'], 'rel': None}]}], 'rel': None}, {'k': ['W', 0, 'ALL'], 'rel': None}]}
    mid_sub = {'steps': [{'k': ['W', 0, 'ALL'], 'rel': None}, {'k': ['S', {'steps': [{'k': ['W', 0, 'ALL'], 'rel': None}, {'k': ['W', 1, 'ALL'], 'rel': None}]}], 'rel': None},
                         {'k': ['W', 0, 'ALL'], 'rel': None}]}
    for prog in (deep, one_sub, mid_sub):
        for events in (['dur', 'apply'], ['times', 'apply'], ['dur', 'grow'], ['ops', 'grow'], ['times', 'grow', 'dur'], ['acq', 'grow'],
                       ['dur', 'grownew'], ['ops', 'grownew'], ['times', 'grownew', 'dur'], ['ops', 'grownew', 'grownew'], ['ops', 'grow', 'grownew']):
            for final in ('duration_only', 'times', 'retained'):
                out.append({'prog': prog, 'events': events, 'final': final, 'name': 'a relation-less nested block grows after a time was read'})
    for _ in range(n_pairs):
        kind = rng.random()
        if kind < 0.35:
            prog = rng.choice(flat)
        elif kind < 0.8:
            sub = dict(rng.choice(inner))
            r = rng.choice((1, 1, 2))
            if r != 1:
                sub['rep'] = r
            steps = [{'k': ['S', sub], 'rel': None}]
            if rng.random() < 0.7:
                steps.insert(0, {'k': rng.choice(ALPHA), 'rel': None})
            if rng.random() < 0.7:
                i = len(steps)
                steps.append({'k': rng.choice(ALPHA), 'rel': rng.choice(gen.rel_options(i, 'FS'))})
            prog = {'steps': steps}
        else:
            s1, s2 = dict(rng.choice(inner)), dict(rng.choice(inner))
            steps = [{'k': ['S', s1], 'rel': None}, {'k': ['S', s2], 'rel': rng.choice([None, ['F', 0]])}]
            if rng.random() < 0.7:
                steps.append({'k': rng.choice(ALPHA), 'rel': rng.choice(gen.rel_options(2, 'FS'))})
            prog = {'steps': steps}
        n_ev = rng.randint(1, max_events)
        events = []
        for _ in range(n_ev):
            events.append(rng.choice(OBS) if rng.random() < 0.55 else rng.choice(MUT))
        # at most two growth events per history (each adds a symbolic duration: the number of orderings, hence of paths, explodes otherwise)
        kept, n_growth = [], 0
        for e in events:
            if e in ('add', 'addsub', 'grow', 'grownew'):
                n_growth += 1
                if n_growth > 2:
                    continue
            kept.append(e)
        events = kept
        if not any(e in OBS for e in events):
            events.insert(rng.randrange(len(events) + 1), rng.choice(OBS))
        final = rng.choice(['times', 'times', 'nest', 'unrolled', 'stim', 'retained', 'duration_only', 'held', 'held'])
        if final == 'held':
            # keep the objects after the last structural mutation; afterwards only settings change
            last = max([i for i, e in enumerate(events) if e in ('add', 'addsub', 'grow', 'grownew', 'apply', 'flatten')], default=-1)
            events.insert(rng.randint(last + 1, len(events)), 'hold')
            events.append(rng.choice(['enter', 'setreg', 'leave', 'enter']))
        job = {'prog': prog, 'events': events, 'final': final}
        # many independent symbolic durations in parallel branches make the number of orderings (paths) explode: draw the fixed
        # durations of large programs from a pool of two symbolic values (the growth / registry values stay independent)
        if gen.count_leaves(prog) + sum(1 for e in events if e in ('add', 'addsub', 'grow', 'grownew', 'setreg')) >= 5:
            job['pool'] = 2
        out.append(job)
    return out


class _Stub:
    """plot_circuit with the matplotlib renderer replaced by construction of the description only."""
    def __enter__(self):
        from qce_circuit.visualization.visualize_circuit import display_circuit as dc
        self.dc = dc
        self.orig = dc.plot_circuit_description
        dc.plot_circuit_description = lambda description, **kw: (None, None)
        return self

    def __exit__(self, *a):
        self.dc.plot_circuit_description = self.orig
        return False


def observe_kind(kind, circuit):
    from qce_circuit.visualization.visualize_circuit.display_circuit import plot_circuit, construct_visual_description
    if kind == 'ops':
        return circuit.operations
    if kind == 'times':
        return [(o.start_time, o.end_time) for o in circuit.operations]
    if kind == 'dur':
        return circuit.duration
    if kind == 'acq':
        per_op = [(o.circuit_level_acquisition_index, o.acquisition_index) for o in circuit.operations if isinstance(o, IAcquisitionOperation)]
        return per_op, [circuit.get_acquisition_indices(q) for q in (0, 1)]
    if kind == 'vis':
        return construct_visual_description(circuit)
    if kind == 'plot':
        with _Stub():
            return plot_circuit(circuit)
    if kind == 'stim':
        from qce_circuit.addon_stim.factory_manager import to_stim
        return str(to_stim(circuit))
    if kind == 'nest':
        c2 = DeclarativeCircuit()
        c2.add(circuit)
        return [(o.start_time, o.end_time) for o in c2.operations]
    raise ValueError(kind)


def sig(o):
    qs = tuple(getattr(o, a) for a in ('qubit_index', 'control_qubit_index', 'target_qubit_index') if hasattr(o, a))
    return (type(o).__name__, qs, getattr(o, 'acquisition_tag', None))


def play(ctx, params, with_observations: bool, g_out, g_in, stack):
    """Runs the history; returns the final observations."""
    built = cm.build(ctx, params['prog'], dur_pool=params.get('pool', 0))
    circuit = built.circuit
    holder = {'circuit': circuit}
    retained = circuit.operations if params.get('final') == 'retained' else []   # objects the user holds from the start (part of both histories)
    open_overrides = []
    extra = 0
    held = None
    for ev in params['events']:
        c = holder['circuit']
        if ev == 'hold':
            # the user lists the circuit, reads the times and keeps the operation objects (an observation: absent from H')
            if with_observations:
                held = c.operations
                [(o.start_time, o.end_time) for o in held]
            continue
        if ev in OBS:
            if with_observations:
                observe_kind(ev, c)
            continue
        if ev == 'add':
            extra += 1
            c.add(co.Wait(0, duration_strategy=FixedDurationStrategy(ctx.real(f'd_add{extra}', lo=0, reuse=True))))
        elif ev == 'addsub':
            extra += 1
            s = DeclarativeCircuit(repetition_strategy=FixedRepetitionStrategy(2))
            s.add(co.Wait(0, duration_strategy=FixedDurationStrategy(ctx.real(f'd_sub{extra}a', lo=0, reuse=True))))
            s.add(co.Wait(1, duration_strategy=FixedDurationStrategy(ctx.real(f'd_sub{extra}b', lo=0, reuse=True))))
            c.add(s)
        elif ev == 'grow':
            # the user extends a nested block through the handle add() returned for it
            subs_ = [n for n in built.nodes if n.is_sub]
            if subs_:
                extra += 1
                subs_[0].obj.add(co.Wait(0, duration_strategy=FixedDurationStrategy(ctx.real(f'd_grow{extra}', lo=0, reuse=True))))
        elif ev == 'grownew':
            # ... the same on a channel the block did not use so far (the new operation has no predecessor inside the block)
            subs_ = [n for n in built.nodes if n.is_sub]
            if subs_:
                extra += 1
                subs_[-1].obj.add(co.Wait(5 + extra, duration_strategy=FixedDurationStrategy(ctx.real(f'd_grownew{extra}', lo=0, reuse=True))))
        elif ev == 'apply':
            holder['circuit'] = c.apply_modifiers()
        elif ev == 'flatten':
            holder['circuit'] = c.flatten()
        elif ev == 'setreg':
            for i, key in enumerate(built.reg_keys):
                built.registry.set_registry_at(key, ctx.real(f"v1_{i % params['pool'] if params.get('pool') else i}", lo=0, reuse=True))
        elif ev == 'enter':
            cmgr = temporary_override_get_registry_at(g_in.table())
            cmgr.__enter__()
            open_overrides.append(cmgr)
        elif ev == 'leave':
            if open_overrides:
                open_overrides.pop().__exit__(None, None, None)
    c = holder['circuit']
    final = {'built': built, 'circuit': c, 'inside_override': bool(open_overrides), 'held_objects': held}
    try:
        return _final(ctx, params, c, final, retained)
    finally:
        while open_overrides:
            open_overrides.pop().__exit__(None, None, None)


def _final(ctx, params, c, final, retained):
    which = params.get('final', 'times')
    # exactly one kind of final observation per run, so that no final observation can mask (or repair) another one
    if which == 'duration_only':
        # no listing: only the duration and the start/end of the top-level entries the user holds
        final['duration_only'] = [(c.duration, c.duration)] + [(n.obj.start_time, n.obj.end_time) for n in final['built'].nodes]
    elif which == 'retained':
        # no new listing: times are read through the operation objects obtained right after construction
        final['retained'] = [(o.start_time, o.end_time) for o in retained]
    elif which == 'held':
        # H: no new listing, times are read through the objects kept at the last 'hold'; H': a plain listing of the final circuit.
        # The two are aligned by the objects' structural position (the listing order itself may depend on the settings in force).
        objs = final['held_objects'] if final['held_objects'] is not None else c.operations
        t = [(o, (o.start_time, o.end_time)) for o in objs]
        pos = []

        def walk(comp):
            for k in cm.composite_children(comp):
                if isinstance(k, CircuitCompositeOperation):
                    walk(k)
                else:
                    pos.append(k)
        walk(c.circuit_structure)
        final['held'] = [next((tt for o, tt in t if o is k), (None, None)) for k in pos]
    elif which == 'nest':
        final['nested'] = observe_kind('nest', c)
    elif which == 'unrolled':
        u = c.apply_modifiers()
        final['unrolled'] = [(o.start_time, o.end_time) for o in u.operations]
    elif which == 'stim':
        final['stim'] = observe_kind('stim', c)
        final['acq'] = [list(map(int, c.get_acquisition_indices(q))) for q in (0, 1)]
    else:
        ops = c.operations
        final['listing'] = [sig(o) for o in ops]
        final['times'] = [(o.start_time, o.end_time) for o in ops]
        final['duration'] = c.duration
        final['acq'] = [[o.circuit_level_acquisition_index, o.acquisition_index] for o in ops if isinstance(o, IAcquisitionOperation)]
    return final


def pairs_equal(a, b):
    return len(a) == len(b) and s_and(*[s_and(x[0] == y[0], x[1] == y[1]) for x, y in zip(a, b)])


def stale_fingerprint(fa, fb):
    return False


def run(ctx, params):
    g_out = cm.Globals(ctx, 'g')
    g_in = cm.Globals(ctx, 'h') if 'enter' in params['events'] else g_out
    finals = []
    for with_obs in (True, False):
        with contextlib.ExitStack() as stack:
            stack.enter_context(g_out.override())
            finals.append(play(ctx, params, with_obs, g_out, g_in, stack))
    fa, fb = finals
    # fingerprint of known finding F3: two *distinct* sub-circuits of one parent compare equal (dataclass value equality with
    # graph fields excluded) once the listing handed both of them the parent's relation link; copy() then confuses them as dict keys
    def value_equal_siblings(comp):
        kids = [k for k in cm.composite_children(comp) if isinstance(k, CircuitCompositeOperation)]
        for i, a in enumerate(kids):
            for b in kids[i + 1:]:
                if a is not b and a == b:
                    return True
        return any(value_equal_siblings(k) for k in kids)
    info = {'events': params['events'], 'final': params.get('final', 'times'),
            'value_equal_sibling_sub_circuits': bool(value_equal_siblings(fa['circuit'].circuit_structure))}
    for key in ('times', 'nested', 'unrolled', 'retained', 'duration_only'):
        if key in fa:
            ctx.observe(f'{key}.with', fa[key])
            ctx.observe(f'{key}.without', fb[key])
    if 'listing' in fa:
        ctx.check('C03.listing', fa['listing'] == fb['listing'], dict(info, with_observations=fa['listing'], without=fb['listing']))
        same_listing = fa['listing'] == fb['listing']
        ctx.check('C03.times', pairs_equal(fa['times'], fb['times']) if same_listing else True, dict(info, with_observations=fa['times'], without=fb['times']))
        ctx.check('C03.duration', fa['duration'] == fb['duration'], dict(info, with_observations=fa['duration'], without=fb['duration']))
    if 'acq' in fa:
        ctx.check('C03.acquisition', fa['acq'] == fb['acq'], dict(info, with_observations=fa['acq'], without=fb['acq']))
    if 'stim' in fa:
        ctx.check('C03.stim', fa['stim'] == fb['stim'], dict(info, with_observations=fa['stim'], without=fb['stim']))
    if 'nested' in fa:
        ctx.check('C03.nested_copy', pairs_equal(fa['nested'], fb['nested']), dict(info, with_observations=fa['nested'], without=fb['nested']))
    if 'duration_only' in fa:
        ctx.check('C03.duration_only', pairs_equal(fa['duration_only'], fb['duration_only']), dict(info, with_observations=fa['duration_only'], without=fb['duration_only']))
    if 'retained' in fa:
        ctx.check('C03.retained', pairs_equal(fa['retained'], fb['retained']), dict(info, with_observations=fa['retained'], without=fb['retained']))
    if 'held' in fa:
        ctx.observe('held.with', fa['held'])
        ctx.check('C03.held', pairs_equal(fa['held'], fb['held']), dict(info, with_observations=fa['held'], without=fb['held']))
    if 'unrolled' in fa:
        ctx.check('C03.unrolled', pairs_equal(fa['unrolled'], fb['unrolled']), dict(info, with_observations=fa['unrolled'], without=fb['unrolled']))
    if 'times' not in fa:
        return
    # ---- "a time reported after a duration setting changed reflects the change" ------------------------------------------------------
    # fresh build of the *same program* under the final settings, no history at all (only for histories without structural mutations)
    if not any(e in ('add', 'addsub', 'grow', 'grownew', 'apply', 'flatten') for e in params['events']):
        final_globals = g_in if fa['inside_override'] else g_out
        with final_globals.override():
            built = cm.build(ctx, params['prog'], dur_pool=params.get('pool', 0))
            if 'setreg' in params['events']:
                for i, key in enumerate(built.reg_keys):
                    built.registry.set_registry_at(key, ctx.real(f"v1_{i % params['pool'] if params.get('pool') else i}", lo=0, reuse=True))
            fresh = [(o.start_time, o.end_time) for o in built.circuit.operations]
        # the history's final times were read inside its own override scope, i.e. under the same final settings
        ctx.check('C03.reflects_change', pairs_equal(fa['times'], fresh), dict(info, reported=fa['times'], fresh=fresh))
