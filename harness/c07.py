"""
C07 -- acquisition indices enumerate measurements exactly, in order.

Real code executed symbolically: AcquisitionRegistry.get_registry_at, DispersiveMeasure.acquisition_index/circuit_level_acquisition_index,
RegistryAcquisitionStrategy.copy (re-targeting on nesting), DeclarativeCircuit.get_acquisition_indices (both dispatches),
AcquisitionTag.equal_tag, AcquisitionIdentifier, apply_modifiers/copy/repeat (copies get fresh identifiers), to_stim for the record order.
Program shapes (which qubits, tags, registries, nesting, repetition) are enumerated; durations are symbolic for the time-order clause.
"""
from __future__ import annotations

import random

from symx.core import s_and
from symx import fakestim
from . import common as cm
from . import gen
from . import lib
from qce_circuit.structure.intrf_acquisition_operation import IAcquisitionOperation, AcquisitionTag
from qce_circuit.structure.intrf_circuit_operation_composite import CircuitCompositeOperation

PROPERTY = 'C07'
FUNCTIONS = ['AcquisitionRegistry.get_registry_at', 'DispersiveMeasure.acquisition_index', 'DispersiveMeasure.circuit_level_acquisition_index',
             'RegistryAcquisitionStrategy.get_acquisition_info/copy', 'DeclarativeCircuit.get_acquisition_indices(int)', 'DeclarativeCircuit.get_acquisition_indices(AcquisitionTag)',
             'AcquisitionTag.equal_tag', 'AcquisitionIdentifier.__post_init__', 'DeclarativeCircuit.add_sub_circuit (registry transfer)', 'DispersiveMeasure.copy',
             'CircuitCompositeOperation.repeat/extend', 'to_stim (record order)']
BOUNDS = {'quick': "900 seeded random programs: <= 4 steps per circuit, nesting <= 2, repetition 1..2, measurements on qubits {0,1,2} with tags {'', 'a', 'b'} against the registry "
                   "of their own circuit or of the top-level circuit, mixed with Wait/Rx180/CPhase/Barrier; 300 of them implicitly sequenced (time-order clause, symbolic durations); "
                   "library circuits d in {2,3}, cycles 0..2 and qutrit calibration (time-order clause, symbolic global durations)",
          'thorough': "3000 programs with <= 4 steps, nesting <= 3, repetition 1..3 (time-order clause on those with <= 10 leaves); library d <= 3, cycles 0..4 symbolic, index clauses up to 7 cycles, d <= 4"}
OUTSIDE = ["measurements created against a registry of an unrelated circuit (index -1 by design)", "qubit labels and tags are concrete (get_acquisition_indices dispatches on the argument type)"]
ASSUMPTIONS = ["memo caches start empty", "the exported record order is read from the real stim circuit (concrete integers only)"]
REQUIRED_REACH = ['C07.circuit_level', 'C07.qubit_level', 'C07.filter_qubit', 'C07.filter_tag', 'C07.tag_partition', 'C07.record_order', 'C07.time_order', 'C07.time_order.library']
EXHAUSTIVE = {'quick': False, 'thorough': False}
JOB_OPTS = {'quick': dict(max_paths=3000, max_seconds=500, twin_every=2), 'thorough': dict(max_paths=20000, max_seconds=1500, twin_every=4)}
TRUNCATION_OK = {'quick': 4, 'thorough': 20}   # sampled tier: this many random jobs may exhaust their path/time budget (listed as truncated in the evidence)

QUBITS = (0, 1, 2)
TAGS = ('', 'a', 'b')


def alphabet():
    a = [['M', q, t] for q in QUBITS for t in TAGS] + [['M', q, t, 'top'] for q in QUBITS for t in ('a', 'b')]
    a += [['W', 0, 'ALL'], ['W', 1, 'RO'], ['G', 'Rx180', [0]], ['G', 'CPhase', [0, 1]], ['B', [0, 1, 2]]]
    return a


def jobs(tier, seed):
    rng = random.Random(seed + 7)
    n, steps, depth, reps = (900, 4, 2, (1, 2)) if tier == 'quick' else (3000, 4, 3, (1, 2, 3))
    alpha = alphabet()
    out = []
    for i in range(n):
        implicit = i % 3 == 0
        p = gen.random_program(rng, alpha, steps, depth, types='FSE', p_sub=0.35, p_rel=0.0 if implicit else 0.35, reps=reps, sub_rel=False)
        if gen.count_leaves(p) > 24 or (implicit and gen.count_leaves(p) > 10):
            continue   # the time-order clause reads symbolic schedules: keep those programs small
        out.append({'prog': p, 'implicit': implicit, 'preread': i % 2 == 1})
    # sub-circuits that are given an explicit relation (FOLLOWED_BY / JOINED_START) to an operation of their parent
    rng2 = random.Random(seed + 77)
    for i in range(150 if tier == 'quick' else 600):
        p = gen.random_program(rng2, alpha, 3, 2, types='FS', p_sub=0.5, p_rel=0.6, reps=reps, sub_rel=True)
        if gen.count_leaves(p) <= 16:
            out.append({'prog': p, 'implicit': False, 'preread': i % 4 == 3})
    # the same clauses on the flattened circuit (programs without repetition counts: flatten after unrolling counts > 1 is finding F14)
    rng3 = random.Random(seed + 78)
    for i in range(150 if tier == 'quick' else 800):
        p = gen.random_program(rng3, alpha, 3, 2, types='FS', p_sub=0.6, p_rel=0.0, reps=(1,), sub_rel=False)
        if 2 <= gen.count_leaves(p) <= 14:
            out.append({'prog': p, 'implicit': False, 'preread': False, 'flatten': True})
    dmax, cmax = (3, 2) if tier == 'quick' else (3, 4)
    for d in range(2, dmax + 1):
        for cycles in range(0, cmax + 1):
            out.append({'library': {'kind': 'full', 'd': d, 'cycles': cycles}})
    # index clauses only (default durations, one path each) for more cycles: the constructors read indices while they build
    for d in (2, 3) if tier == 'quick' else (2, 3, 4):
        for cycles in range(cmax + 1, 6 if tier == 'quick' else 8):
            for preread in (False, True):
                out.append({'library': {'kind': 'full', 'd': d, 'cycles': cycles}, 'index_only': True, 'preread': preread})
        for cycles in (1, 2, 3):
            out.append({'library': {'kind': 'simplified', 'd': d, 'cycles': cycles}, 'index_only': True, 'preread': True})
    out.append({'library': {'kind': 'calib', 'qubits': [0, 1], 'type': 'QUTRIT'}})
    out.append({'library': {'kind': 'multi', 'd': 2, 'rounds': [1, 0], 'desc': {'chain': 3}}})
    return out


def check_indices(ctx, u, ops, info):
    meas = [o for o in ops if isinstance(o, IAcquisitionOperation)]
    cl = [o.circuit_level_acquisition_index for o in meas]
    ctx.observe('circuit_level', cl)
    # fingerprint of known finding F3-C07 (root cause of F3: composites compare by value): the registry of a measurement was re-targeted,
    # by a value-keyed lookup in copy(), to a *different* block that compares equal to the circuit it was bound to; exactly those
    # measurements report -1, every other index is exact
    top = u.circuit_structure

    def _ref(o):
        return getattr(getattr(getattr(o, 'acquisition_strategy', None), 'registry', None), 'reference_circuit', None)
    nested = []

    def _walk(comp):
        for k in cm.composite_children(comp):
            if isinstance(k, CircuitCompositeOperation):
                nested.append(k)
                _walk(k)
    _walk(top)
    # (the value equality holds at the moment of the copy; what remains observable is where the registry points afterwards)
    misdirected = [k for k, o in enumerate(meas) if _ref(o) is not None and _ref(o) is not top and any(_ref(o) is b for b in nested)
                   and not any(x is o for x in _ref(o).decomposed_operations())]
    info = dict(info, registry_points_at_nested_block_without_the_measurement=bool(misdirected),
                exact_apart_from_misdirected=bool(misdirected) and all((cl[k] == -1) if k in misdirected else (cl[k] == k) for k in range(len(meas))))
    ctx.check('C07.circuit_level', cl == list(range(len(meas))), dict(info, indices=cl, qubits=[o.qubit_index for o in meas]))
    qubits = sorted(set(o.qubit_index for o in meas) | set(QUBITS))
    for q in qubits:
        mine = [o for o in meas if o.qubit_index == q]
        ql = [o.acquisition_index for o in mine]
        ctx.check('C07.qubit_level', ql == list(range(len(mine))), dict(info, qubit=q, indices=ql))
        got = [int(x) for x in u.get_acquisition_indices(q)]
        ctx.check('C07.filter_qubit', got == ql, dict(info, qubit=q, filter=got, expected=ql))
        by_tag = {}
        tags = sorted(set(o.acquisition_tag for o in mine) | {'a', 'zz'})
        for t in tags:
            want = [o.acquisition_index for o in mine if o.acquisition_tag == t]
            got_t = [int(x) for x in u.get_acquisition_indices(AcquisitionTag(q, t))]
            by_tag[t] = got_t
            ctx.check('C07.filter_tag', got_t == want, dict(info, qubit=q, tag=t, filter=got_t, expected=want))
        flat = [x for v in by_tag.values() for x in v]
        ctx.check('C07.tag_partition', sorted(flat) == ql and len(set(flat)) == len(flat), dict(info, qubit=q, by_tag=by_tag))
    return meas, info


def check_record(ctx, u, meas, info):
    from qce_circuit.addon_stim.factory_manager import to_stim
    units = [x for x in fakestim.normal_form(to_stim(u)) if x[0] == 'M']
    rec_qubits = [x[1][0] for x in units]
    ctx.check('C07.record_order', rec_qubits == [o.qubit_index for o in meas] and all(o.circuit_level_acquisition_index == k for k, o in enumerate(meas)),
              dict(info, record=rec_qubits, listed=[o.qubit_index for o in meas]))


def check_time_order(ctx, meas, label, info):
    conds = []
    for q in sorted(set(o.qubit_index for o in meas)):
        mine = sorted([o for o in meas if o.qubit_index == q], key=lambda o: o.acquisition_index)
        starts = [o.start_time for o in mine]
        ctx.observe(f'starts[{q}]', starts)
        conds += [starts[i] <= starts[i + 1] for i in range(len(starts) - 1)]
    ctx.check(label, s_and(*conds), dict(info, n_pairs=len(conds)))


def preread(c):
    """A user who looks at the indices before applying the modifiers (must not change what is reported afterwards)."""
    for o in c.operations:
        if isinstance(o, IAcquisitionOperation):
            o.circuit_level_acquisition_index, o.acquisition_index
    for q in QUBITS:
        c.get_acquisition_indices(q)


def run(ctx, params):
    if params.get('index_only'):
        c = lib.build(params['library'])
        if params.get('preread'):
            preread(c)
        u = c.apply_modifiers()
        ops = u.operations
        info = {'spec': params['library'], 'preread': params.get('preread')}
        meas, info = check_indices(ctx, u, ops, info)
        check_record(ctx, u, meas, info)
        return
    g = cm.Globals(ctx)
    with g.override():
        if 'library' in params:
            c = lib.build(params['library'])
            u = c.apply_modifiers()
            ops = u.operations
            info = {'spec': params['library']}
            meas, info = check_indices(ctx, u, ops, info)
            check_record(ctx, u, meas, info)
            check_time_order(ctx, meas, 'C07.time_order.library', info)
            return
        built = cm.build(ctx, params['prog'])
        if params.get('preread'):
            preread(built.circuit)
        u = built.circuit.apply_modifiers()
        if params.get('flatten'):
            u = u.flatten()
        ops = u.operations
        info = {'implicit': params['implicit'], 'preread': params.get('preread'), 'flattened': bool(params.get('flatten'))}
        meas, info = check_indices(ctx, u, ops, info)
        check_record(ctx, u, meas, info)
        if params['implicit']:
            # fingerprint of known finding F13: a block that is repeated (count > 1) ends in more than one relation leaf, i.e. it has
            # parallel branches of different relation depth; copy k+1 hangs below the latest-ending leaf only, so the breadth-first
            # listing interleaves copy k+1's first operations with the deeper operations of copy k
            def parallel_repeated(nodes, rep):
                depth = cm.relation_depths(nodes)
                referred = set()
                for i, st in enumerate(nodes):
                    for j in ([st.rel[1]] if st.rel is not None else cm.implicit_predecessors(nodes, i, depth)):
                        referred.add(j)
                leaves = [i for i in range(len(nodes)) if i not in referred]
                if rep > 1 and len(leaves) > 1:
                    return True
                return any(parallel_repeated(st.children, st.rep) for st in nodes if st.is_sub)
            info = dict(info, repeated_block_with_parallel_branches=parallel_repeated(built.nodes, params['prog'].get('rep', 1)))
            check_time_order(ctx, meas, 'C07.time_order', info)
