"""
C17 -- declared and derived gate-sequence layouts are executable.

(i)  Facts of the shipped tables (Surface17Layer edges / parity groups / frequency groups; the layers, gates and parks of
     Repetition9Code, Repetition9Round6Code, Repetition5Round4Code; the real get_requires_parking per (layer, qubit)) are read
     from the real objects on every run into z3 lookup tables; one solver query per clause asks for a *witness* (layer index,
     gate indices, qubit index as bounded symbolic ints) of a violation: a gate that is not a device edge, two gates of a
     layer sharing a qubit, a qubit both parked and gated, a required parking that is missing, a parity-group edge not exercised
     exactly once.  unsat = the clause holds for the whole table.
(ii) Derived descriptions: RepetitionCodeDescription.from_connectivity and CompositeRepetitionCodeDescription are executed on
     bounded families of involved-qubit subsets (contiguous sub-chains, small subsets, full set; forward and reversed) and
     compared with the table-level oracle (kept gates = gates with both qubits involved; bijective index map; parking).
"""
from __future__ import annotations

import itertools
import random
import time

import z3

from qce_circuit.connectivity.connectivity_surface_code import Surface17Layer, get_requires_parking
from qce_circuit.connectivity.intrf_channel_identifier import QubitIDObj, EdgeIDObj
from qce_circuit.library.repetition_code.repetition_code_connectivity import Repetition9Code, Repetition9Round6Code, Repetition5Round4Code
from qce_circuit.library.repetition_code.circuit_components import RepetitionCodeDescription, CompositeRepetitionCodeDescription

PROPERTY = 'C17'
FUNCTIONS = ['Repetition9Code / Repetition9Round6Code / Repetition5Round4Code tables', 'Surface17Layer tables', 'GenericSurfaceCode.get_gate_sequence_at_index',
             'GateSequenceLayer.qubit_ids/edge_ids', 'RepetitionCodeDescription.from_connectivity', 'RepetitionCodeDescription.qubit_ids',
             'IRepetitionCodeDescription.get_gate_sequence_indices/get_park_sequence_indices/circuit_channel_map',
             'CompositeRepetitionCodeDescription.gate_sequences', 'get_requires_parking', 'EdgeIDObj.__eq__/contains', 'ParityGroup.edge_ids']
BOUNDS = {'quick': "all layers of the three shipped layouts and the Surface-17 tables (solver witness queries, exhaustive over the tables); derived: every "
                   "contiguous sub-chain of each layout's chain (>= 2 data qubits), every subset of <= 2 qubits, the full set, forward and reversed; "
                   "composite descriptions with each single edge / qubit exclusion on the full chain, with and without only-required parking",
          'thorough': "as quick plus every subset of <= 3 qubits and 4000 seeded random subsets of any size per layout, composite exclusions on every contiguous sub-chain"}
OUTSIDE = ["layouts the user writes", "subsets outside the enumerated families (class B: bounded exhaustive)"]
ASSUMPTIONS = ["parking requirement is the library's own get_requires_parking (its meaning is C16's subject)",
               "class B (finite): the solver decides each clause over the whole extracted table at once; derived descriptions are executed concretely"]
REQUIRED_REACH = ['C17.smt.device_edge', 'C17.smt.distinct', 'C17.smt.park_vs_gate', 'C17.smt.required_parked', 'C17.smt.parity_once', 'C17.smt.surface17',
                  'C17.derived.kept', 'C17.derived.bijective', 'C17.derived.indices', 'C17.derived.parking', 'C17.composite.filter']
EXHAUSTIVE = {'quick': True, 'thorough': False}   # thorough adds seeded samples beyond the exhaustive part
JOB_OPTS = {'quick': dict(max_paths=10, max_seconds=900, twin=False), 'thorough': dict(max_paths=10, max_seconds=3000, twin=False)}
RULE = ("one evaluation = one derived description executed on the real code or one solver witness query over an extracted table; "
        "non-trivial = derived description that keeps at least one gate and drops at least one")

LAYOUTS = {'Repetition9Code': Repetition9Code, 'Repetition9Round6Code': Repetition9Round6Code, 'Repetition5Round4Code': Repetition5Round4Code}


def chain_of(layout):
    """Qubit chain (data, ancilla, data, ...) derived from the parity groups."""
    groups = layout.parity_group_x + layout.parity_group_z
    nbr = {}
    for g in groups:
        for d in g.data_ids:
            nbr.setdefault(d.id, []).append(g.ancilla_id.id)
            nbr.setdefault(g.ancilla_id.id, []).append(d.id)
    ends = [q for q, ns in nbr.items() if len(ns) == 1]
    start = sorted(ends)[0]
    chain, prev = [start], None
    while True:
        nxt = [n for n in nbr[chain[-1]] if n != prev]
        if not nxt:
            break
        prev = chain[-1]
        chain.append(nxt[0])
    return chain


def subsets_for(name, tier, seed):
    layout = LAYOUTS[name]()
    chain = chain_of(layout)
    out = []
    for i in range(0, len(chain), 2):
        for j in range(i + 2, len(chain), 2):
            out.append(chain[i:j + 1])
            out.append(list(reversed(chain[i:j + 1])))
    allq = [q.id for q in Surface17Layer().qubit_ids]
    kmax = 2 if tier == 'quick' else 3
    for k in range(0, kmax + 1):
        for c in itertools.combinations(chain, k):
            out.append(list(c))
    out.append(list(chain))
    out.append(list(allq))
    if tier != 'quick':
        rng = random.Random(seed + 17)
        for _ in range(4000):
            k = rng.randint(2, len(allq))
            out.append(rng.sample(allq, k))
    return out


def jobs(tier, seed):
    out = []
    for name in LAYOUTS:
        subs = subsets_for(name, tier, seed)
        for i in range(0, len(subs), 25):
            out.append({'part': 'derived', 'layout': name, 'subsets': subs[i:i + 25]})
        chain = chain_of(LAYOUTS[name]())
        chains = [chain]
        if tier != 'quick':
            chains += [chain[i:j + 1] for i in range(0, len(chain), 2) for j in range(i + 4, len(chain), 2)]
        for ch in chains:
            out.append({'part': 'composite', 'layout': name, 'involved': ch})
    return out


def _ids(names):
    return [QubitIDObj(n) for n in names]


def check_layers(ctx, label, layers, layout, involved_ids=None):
    """Clauses (b)-(d) on a list of GateSequenceLayer, executed concretely."""
    dev = Surface17Layer()
    for li, layer in enumerate(layers):
        edges = [op.identifier for op in layer.gate_operations]
        qs = [q for e in edges for q in e.qubit_ids]
        parked = [op.identifier for op in layer.park_operations]
        required = [q for q in dev.qubit_ids if get_requires_parking(q, edges, layout)]
        info = {'layer': li, 'gates': [e.id for e in edges], 'parked': [p.id for p in parked], 'required': [r.id for r in required]}
        ok = all(dev.contains(e) for e in edges) and len(set(q.id for q in qs)) == len(qs) and not any(p in qs for p in parked) \
            and all(r in parked for r in required)
        ctx.check(label, ok, info)


def run(ctx, params):
    layout = LAYOUTS[params['layout']]()
    n_layers = layout.gate_sequence_count
    base_layers = [layout.get_gate_sequence_at_index(i) for i in range(n_layers)]
    if params['part'] == 'derived':
        for names in params['subsets']:
            involved = _ids(names)
            d = RepetitionCodeDescription.from_connectivity(involved_qubit_ids=involved, connectivity=layout)
            layers = d.gate_sequences
            info0 = {'involved': names}
            ctx.check('C17.derived.layers', len(layers) == n_layers, info0)
            for li, (mine, base) in enumerate(zip(layers, base_layers)):
                want = [op.identifier.id for op in base.gate_operations if all(q.id in names for q in op.identifier.qubit_ids)]
                got = [op.identifier.id for op in mine.gate_operations]
                ctx.check('C17.derived.kept', got == want, dict(info0, layer=li, kept=got, expected=want))
            check_layers(ctx, 'C17.derived.parking', layers, layout)
            # index map
            qids = d.qubit_ids
            idx = [d.map_qubit_id_to_circuit_index(q) for q in qids]
            cmap = d.circuit_channel_map
            ctx.check('C17.derived.bijective', len(set(idx)) == len(idx) and len(cmap) == len(qids) and sorted(q.id for q in cmap.values()) == sorted(q.id for q in qids)
                      and sorted(q.id for q in qids) == sorted(n for n in names if QubitIDObj(n) in layout.data_qubit_ids + layout.ancilla_qubit_ids)
                      and all(cmap[d.map_qubit_id_to_circuit_index(q)] == q for q in qids), dict(info0, indices=idx))
            for li, mine in enumerate(layers):
                gi = d.get_gate_sequence_indices(li)
                want_gi = [(d.map_qubit_id_to_circuit_index(e.qubit_ids[0]), d.map_qubit_id_to_circuit_index(e.qubit_ids[1])) for e in mine.edge_ids]
                pi = d.get_park_sequence_indices(li)
                want_pi = [d.map_qubit_id_to_circuit_index(op.identifier) for op in mine.park_operations if op.identifier in qids]
                ctx.check('C17.derived.indices', gi == want_gi and pi == want_pi and all(0 <= a < 10 ** 6 for a in pi), dict(info0, layer=li, gate_indices=gi, park_indices=pi))
            ctx.check('C17.derived.indices', d.get_gate_sequence_indices(n_layers) is None and d.get_park_sequence_indices(-1) is None, info0)
        return
    if params['part'] == 'composite':
        names = params['involved']
        involved = _ids(names)
        base = RepetitionCodeDescription.from_connectivity(involved_qubit_ids=involved, connectivity=layout)
        index_map = {q: i for i, q in enumerate(involved)}
        all_edges = [op.identifier for layer in base.gate_sequences for op in layer.gate_operations]
        # (an edge identifier names the same edge whichever way round it is written: exclusions are given in both orientations)
        cases = [dict()] + [dict(_exclude_gate_edge_ids=[e]) for e in all_edges] + [dict(_exclude_gate_edge_ids=[EdgeIDObj(e.qubit_ids[1], e.qubit_ids[0])]) for e in all_edges] \
            + [dict(_exclude_gate_qubit_ids=[q]) for q in involved]
        for case in cases:
            for only_req in (False, True):
                comp = CompositeRepetitionCodeDescription(_base_description=base, _qubit_index_map=index_map, _connectivity=layout,
                                                          _only_required_parking_operations=only_req, **case)
                layers = comp.gate_sequences
                ex_e = case.get('_exclude_gate_edge_ids', [])
                ex_q = case.get('_exclude_gate_qubit_ids', [])
                info = {'involved': names, 'exclude_edges': [e.id for e in ex_e], 'exclude_qubits': [q.id for q in ex_q], 'only_required': only_req}
                ok = len(layers) == len(base.gate_sequences)
                for mine, b in zip(layers, base.gate_sequences):
                    want = [op.identifier.id for op in b.gate_operations if op.identifier not in ex_e and not any(q in ex_q for q in op.identifier.qubit_ids)]
                    ok = ok and [op.identifier.id for op in mine.gate_operations] == want
                ctx.check('C17.composite.filter', ok, info)
                check_layers(ctx, 'C17.composite.parking', layers, layout)
                idx = [comp.map_qubit_id_to_circuit_index(q) for q in comp.qubit_ids]
                ctx.check('C17.composite.bijective', len(set(idx)) == len(idx) and len(comp.circuit_channel_map) == len(idx), info)
        return
    raise ValueError(params['part'])


# -------------------------------------------------------------------------------------------------------
# (i) solver witness queries over the extracted tables
# -------------------------------------------------------------------------------------------------------
def extract(layout):
    dev = Surface17Layer()
    Q = [q.id for q in dev.qubit_ids]
    qi = {q: i for i, q in enumerate(Q)}
    layers = [layout.get_gate_sequence_at_index(i) for i in range(layout.gate_sequence_count)]
    gates = [[(qi[op.identifier.qubit_ids[0].id], qi[op.identifier.qubit_ids[1].id]) for op in layer.gate_operations] for layer in layers]
    parks = [[qi[op.identifier.id] for op in layer.park_operations] for layer in layers]
    req = [[bool(get_requires_parking(q, [op.identifier for op in layer.gate_operations], layout)) for q in dev.qubit_ids] for layer in layers]
    groups = [(qi[g.ancilla_id.id], [qi[d.id] for d in g.data_ids]) for g in layout.parity_group_x + layout.parity_group_z]
    return Q, qi, gates, parks, req, groups


def extra(tier, seed):
    res = {'errors': [], 'violations': [], 'reached': {}, 'queries': 0, 'solver_s': 0.0, 'obligations': 0, 'discharged': 0, 'samples': [], 'evidence': {}}
    dev = Surface17Layer()
    Q = [q.id for q in dev.qubit_ids]
    qi = {q: i for i, q in enumerate(Q)}
    I, B = z3.IntSort(), z3.BoolSort()
    dev_edges = set()
    for e in dev.edge_ids:
        a, b = qi[e.qubit_ids[0].id], qi[e.qubit_ids[1].id]
        dev_edges.add((a, b))
        dev_edges.add((b, a))
    points = 0

    def decide(label, layout_name, axioms, neg, vars_, describe):
        s = z3.Solver()
        s.set('timeout', 60000)
        s.add(*axioms)
        s.add(neg)
        t = time.time()
        r = s.check()
        res['solver_s'] += time.time() - t
        res['queries'] += 1
        res['obligations'] += 1
        res['reached'][label] = res['reached'].get(label, 0) + 1
        if r == z3.unsat:
            res['discharged'] += 1
        elif r == z3.sat:
            m = s.model()
            vals = {str(v): m.eval(v, model_completion=True).as_long() for v in vars_}
            res['violations'].append({'label': label, 'info': dict(describe(vals), layout=layout_name), 'model': vals, 'choices': [],
                                      'params': {'part': 'smt', 'layout': layout_name}})
        else:
            res['errors'].append(f"{label}: solver returned unknown")

    isdev = z3.Function('isdev', I, I, B)
    ax_dev = [isdev(z3.IntVal(a), z3.IntVal(b)) == z3.BoolVal((a, b) in dev_edges) for a in range(len(Q)) for b in range(len(Q))]
    for name, cls in LAYOUTS.items():
        layout = cls()
        _, _, gates, parks, req, groups = extract(layout)
        nL = len(gates)
        maxg = max(len(g) for g in gates)
        maxp = max([len(p) for p in parks] + [1])
        ng = z3.Function('ng', I, I)
        npk = z3.Function('np', I, I)
        gA = z3.Function('gA', I, I, I)
        gB = z3.Function('gB', I, I, I)
        pk = z3.Function('pk', I, I, I)
        rq = z3.Function('rq', I, I, B)
        ax = list(ax_dev)
        for l in range(nL):
            ax.append(ng(l) == len(gates[l]))
            ax.append(npk(l) == len(parks[l]))
            for i, (a, b) in enumerate(gates[l]):
                ax += [gA(l, i) == a, gB(l, i) == b]
            for i, p in enumerate(parks[l]):
                ax.append(pk(l, i) == p)
            for q in range(len(Q)):
                ax.append(rq(l, q) == z3.BoolVal(req[l][q]))
        points += len(ax)
        l, i, j, p, q = z3.Ints('l i j p q')
        inl = z3.And(l >= 0, l < nL)
        gi_ = z3.And(i >= 0, i < ng(l))
        gj_ = z3.And(j >= 0, j < ng(l))
        pp_ = z3.And(p >= 0, p < npk(l))
        desc = lambda v: {k: (Q[x] if k == 'q' and 0 <= x < len(Q) else x) for k, x in v.items()}  # noqa: E731
        decide('C17.smt.device_edge', name, ax, z3.And(inl, gi_, z3.Not(isdev(gA(l, i), gB(l, i)))), [l, i], desc)
        share = z3.Or(gA(l, i) == gA(l, j), gA(l, i) == gB(l, j), gB(l, i) == gA(l, j), gB(l, i) == gB(l, j))
        decide('C17.smt.distinct', name, ax, z3.And(inl, gi_, gj_, i < j, share), [l, i, j], desc)
        decide('C17.smt.distinct', name, ax, z3.And(inl, gi_, gA(l, i) == gB(l, i)), [l, i], desc)
        decide('C17.smt.park_vs_gate', name, ax, z3.And(inl, gi_, pp_, z3.Or(pk(l, p) == gA(l, i), pk(l, p) == gB(l, i))), [l, i, p], desc)
        # required parking present: exists layer, qubit required, and no park slot holds it
        parked_q = z3.Or([z3.And(k < npk(l), pk(l, k) == q) for k in range(maxp)])
        decide('C17.smt.required_parked', name, ax, z3.And(inl, q >= 0, q < len(Q), rq(l, q), z3.Not(parked_q)), [l, q], desc)
        # parity-group edges exercised exactly once over the full sequence
        for anc, datas in groups:
            for dq in datas:
                cnt = z3.Sum([z3.If(z3.And(k < ng(ll), z3.Or(z3.And(gA(ll, k) == anc, gB(ll, k) == dq), z3.And(gA(ll, k) == dq, gB(ll, k) == anc))), 1, 0)
                              for ll in range(nL) for k in range(maxg)])
                decide('C17.smt.parity_once', name, ax, cnt != 1, [], lambda v, a=anc, d_=dq: {'ancilla': Q[a], 'data': Q[d_]})
        # and no gate outside the parity groups (every gate is an ancilla-data edge of some group)
        ingroup = z3.Or([z3.Or(z3.And(gA(l, i) == anc, gB(l, i) == dq), z3.And(gA(l, i) == dq, gB(l, i) == anc)) for anc, datas in groups for dq in datas])
        decide('C17.smt.parity_once', name, ax, z3.And(inl, gi_, z3.Not(ingroup)), [l, i], desc)
    # Surface-17 tables: parity-group edges are device edges, groups of each type use each ancilla once, frequency group defined for all
    s17_groups = [(qi[g.ancilla_id.id], [qi[d.id] for d in g.data_ids]) for g in dev.parity_group_x + dev.parity_group_z]
    ga = z3.Function('s17anc', I, I)
    gd = z3.Function('s17dat', I, I, I)
    gn = z3.Function('s17n', I, I)
    ax = list(ax_dev)
    for k, (anc, datas) in enumerate(s17_groups):
        ax += [ga(k) == anc, gn(k) == len(datas)] + [gd(k, m) == dq for m, dq in enumerate(datas)]
    k, m, k2 = z3.Ints('k m k2')
    decide('C17.smt.surface17', 'Surface17Layer', ax, z3.And(k >= 0, k < len(s17_groups), m >= 0, m < gn(k), z3.Not(isdev(ga(k), gd(k, m)))), [k, m], lambda v: v)
    decide('C17.smt.surface17', 'Surface17Layer', ax, z3.And(k >= 0, k < len(s17_groups), k2 > k, k2 < len(s17_groups), ga(k) == ga(k2)), [k, k2], lambda v: v)
    # every device edge belongs to exactly one parity group
    a_, b_ = z3.Ints('a_ b_')
    member = z3.Sum([z3.If(z3.And(m2 < gn(kk), z3.Or(z3.And(ga(kk) == a_, gd(kk, m2) == b_), z3.And(ga(kk) == b_, gd(kk, m2) == a_))), 1, 0)
                     for kk in range(len(s17_groups)) for m2 in range(4)])
    decide('C17.smt.surface17', 'Surface17Layer', ax, z3.And(a_ >= 0, a_ < len(Q), b_ >= 0, b_ < len(Q), isdev(a_, b_), member != 1), [a_, b_],
           lambda v: {'a': Q[v['a_']], 'b': Q[v['b_']]})
    try:
        ok_freq = all(dev.get_frequency_group_identifier(q) is not None for q in dev.qubit_ids) and len(set(Q)) == len(Q) == 17
    except KeyError:
        ok_freq = False
    if not ok_freq:
        res['violations'].append({'label': 'C17.smt.surface17', 'info': {'what': 'qubit without frequency group / duplicate qubit'}, 'model': {}, 'choices': [], 'params': {'part': 'smt'}})
    res['evaluations'] = res['queries']
    res['states'] = res['queries']
    res['transitions'] = points
    res['nontrivial'] = res['queries']
    res['samples'] = [{'query': 'exists layer l, gate slots i<j of Repetition9Code: the two gates share a qubit', 'answer': 'unsat' if not res['violations'] else 'see violations'}]
    res['evidence'] = {'smt_queries': res['queries'], 'table_points_from_real_code': points}
    return res
