"""
C01 -- relation-based timing: every operation sits where its relation says.

Real code executed symbolically: DeclarativeCircuit.add/add_operation/add_sub_circuit/operations/apply_modifiers,
CircuitGraphBranch.add_to_graph/get_leaf_at_any, GraphBranch._update_branch_iterator, RelationLink.get_start_time and
MultiRelationLink.reference_node/get_start_time (through the real functools.lru_cache), IDurationComponent.end_time,
CircuitCompositeOperation.duration/start_time/decomposed_operations/copy/repeat/extend, Fixed/Global duration strategies under
temporary_override_get_registry_at.  Every fixed duration and the four global durations are unbounded symbolic reals >= 0.

Oracle (per clause, from the *program*, against the times the library reports for the referenced operation):
end = start + duration; FOLLOWED_BY: start = end(ref); JOINED_START: start = start(ref); JOINED_END: end = end(ref);
no relation and no channel-overlapping earlier step: start = start of the enclosing (sub-)circuit; no relation otherwise:
start is the end of one of the channel-overlapping earlier steps of maximal relation depth.  After apply_modifiers() the same
equations are checked against the links the unrolled operations carry.
"""
from __future__ import annotations

import random

from symx.core import s_and, s_or, s_not, s_implies
from . import common as cm
from . import gen
from qce_circuit.structure.intrf_circuit_operation import RelationType

PROPERTY = 'C01'
FUNCTIONS = ['RelationLink.get_start_time', 'MultiRelationLink.reference_node', 'MultiRelationLink.get_start_time',
             'IDurationComponent.end_time', 'CircuitGraphBranch.add_to_graph', 'CircuitGraphBranch.get_leaf_at_any',
             'CircuitGraphBranch.get_corresponding_node', 'GraphBranch._update_branch_iterator', 'CircuitGraphBranch.append_pointers_to',
             'CircuitCompositeOperation.duration', 'CircuitCompositeOperation.start_time', 'CircuitCompositeOperation.decomposed_operations',
             'CircuitCompositeOperation.copy', 'CircuitCompositeOperation.repeat', 'CircuitCompositeOperation.extend',
             'CircuitCompositeOperation.apply_modifiers_to_self', 'RelationLink.copy', 'MultiRelationLink.copy',
             'DeclarativeCircuit.add_operation', 'DeclarativeCircuit.add_sub_circuit', 'DeclarativeCircuit.operations',
             'DeclarativeCircuit.apply_modifiers', 'FixedDurationStrategy.get_variable_duration', 'GlobalDurationStrategy.get_variable_duration',
             'temporary_override_get_registry_at', 'ChannelIdentifier.__eq__', 'SingleQubitOperation.start_time (and all subclasses)']
BOUNDS = {
    'quick': "flat programs of <= 3 steps over {Wait q0 ALL, Wait q1 ALL, Wait q0 MW, Rx180 q0, CPhase q0 q1, DispersiveMeasure q1}, every "
             "relation option; nested programs: 2 outer steps (all) and 3 outer steps (seeded sample of 1200) with one sub-circuit of <= 2 inner "
             "steps, any relation on it, repetition count 1 or 2 (unrolled); all fixed durations and the four global durations symbolic reals >= 0",
    'thorough': "flat programs of <= 3 steps (all) and 4 steps (sample of 5000), nested programs with sub-circuits of <= 3 inner steps, "
                "repetition counts 1..3, depth 2, plus 1500 VERIF_SEED-seeded random shapes of <= 8 leaves, depth <= 3 (shapes sampled, durations symbolic)",
}
OUTSIDE = ["IEEE rounding off the dyadic grid", "programs larger than the stated shape bounds", "relations to operations of a different circuit",
           "ties in relation depth are accepted in either direction (the statement leaves them open)"]
ASSUMPTIONS = ["memo caches start empty at the beginning of each history; the history is build -> list -> read times (-> apply_modifiers -> list -> read times)",
               "hash(Sym) constant / == decided by the solver: dict, set, lru_cache and dataclass equality are modelled as semantic equality",
               "a referenced sub-circuit is compared through the start/end the library reports for it (its duration is C04's subject)"]
REQUIRED_REACH = ['C01.end', 'C01.followed_by', 'C01.joined_start', 'C01.joined_end', 'C01.first', 'C01.implicit',
                  'C01.unrolled.link', 'C01.unrolled.end', 'C01.unrolled.group']
EXHAUSTIVE = {'quick': False, 'thorough': False}
JOB_OPTS = {'quick': dict(max_paths=6000, max_seconds=400), 'thorough': dict(max_paths=30000, max_seconds=1200)}
TRUNCATION_OK = {'quick': 4, 'thorough': 20}   # sampled tier: this many random jobs may exhaust their path/time budget (listed as truncated in the evidence)

ALPHA = [['W', 0, 'ALL'], ['W', 1, 'ALL'], ['W', 0, 'MW'], ['G', 'Rx180', [0]], ['G', 'CPhase', [0, 1]], ['M', 1, 'a']]
ALPHA_W = [['W', 0, 'ALL'], ['W', 1, 'ALL'], ['W', 0, 'MW']]
ALPHA_IN = [['W', 0, 'ALL'], ['W', 1, 'ALL'], ['G', 'Rx180', [0]]]


def _st(k, rel=None):
    return {'k': k, 'rel': rel}


def _sub(steps, rep=1):
    return ['S', {'steps': steps, 'rep': rep}]


# repeated blocks whose latest-ending leaf is itself a repeated block (the ranking of the leaves changes while unrolling)
NESTED_REPS = [
    {'steps': [_st(_sub([_st(['W', 0, 'ALL']), _st(_sub([_st(['W', 1, 'ALL'])], 3))], 2))]},
    {'steps': [_st(_sub([_st(_sub([_st(['W', 1, 'ALL'])], 2)), _st(['W', 0, 'ALL'])], 2)), _st(['W', 0, 'MW'])]},
    {'steps': [_st(['W', 1, 'ALL']), _st(_sub([_st(['W', 0, 'ALL']), _st(_sub([_st(['W', 1, 'ALL']), _st(['W', 1, 'ALL'])], 2), ['S', 0])], 3))]},
    {'steps': [_st(_sub([_st(['W', 0, 'ALL']), _st(['W', 1, 'ALL']), _st(_sub([_st(['G', 'Rx180', [2]])], 2))], 2))]},
]


ALPHA_P = [['W', 0, 'ALL'], ['W', 1, 'ALL'], ['W', 0, 'MW'], ['W', 1, 'FL'], ['W', 2, 'ALL'], ['G', 'Rx180', [0]]]
LAST_P = [['G', 'CPhase', [0, 1]], ['W', 0, 'ALL'], ['W', 0, 'FL'], ['B', [0, 1]]]


def placement_programs(n_prefix):
    """Programs whose last step is added without relation where the implicit-placement rule has something to decide: the deepest
    channel-sharing earlier step is *not* a leaf of the relation graph and a shallower channel-sharing leaf exists (statically
    selected from all FOLLOWED_BY/no-relation prefixes of n_prefix steps over ALPHA_P)."""
    for pre in gen.flat_programs(n_prefix, ALPHA_P, types='F'):
        nodes = [cm.Node(st, (i,)) for i, st in enumerate(pre['steps'])]
        depth = cm.relation_depths(nodes)
        succ = [False] * len(nodes)
        tie = False
        for i, n in enumerate(nodes):
            if n.rel is not None:
                succ[n.rel[1]] = True
            else:
                pr = cm.implicit_predecessors(nodes, i, depth)
                tie = tie or len(pr) > 1
                for j in pr:
                    succ[j] = True
        if tie:
            continue
        for last in LAST_P:
            ln = cm.Node({'k': last, 'rel': None}, (len(nodes),))
            alln = nodes + [ln]
            d2 = cm.relation_depths(alln)
            pr = cm.implicit_predecessors(alln, len(nodes), d2)
            if len(pr) != 1 or not succ[pr[0]]:
                continue
            if any((not succ[j]) and d2[j] < d2[pr[0]] and cm.channels_overlap(nodes[j].qubit_channels(), ln.qubit_channels()) for j in range(len(nodes))):
                yield {'steps': pre['steps'] + [{'k': last, 'rel': None}]}


# a registry-driven wait whose key is assigned for the first time only after the times were read once (through the same objects)
LATE_SET = [
    {'steps': [_st(['R', 0, 'ALL', 'unset']), _st(['W', 0, 'ALL']), _st(['W', 1, 'ALL'], ['E', 0])]},
    {'steps': [_st(['W', 0, 'ALL']), _st(['R', 0, 'ALL', 'unset'], ['F', 0]), _st(['G', 'Rx180', [0]], ['F', 1]), _st(['W', 1, 'ALL'], ['S', 1])]},
    {'steps': [_st(['W', 0, 'ALL']), _st(_sub([_st(['R', 0, 'ALL', 'unset']), _st(['W', 0, 'ALL'])])), _st(['W', 0, 'ALL'])]},
]


def jobs(tier, seed):
    out = [{'prog': p} for p in NESTED_REPS] + [{'prog': p, 'late_set': True} for p in LATE_SET]
    out += [{'prog': p} for p in gen.sample(placement_programs(4), 1500 if tier == 'quick' else 100000, seed + 7)]
    if tier == 'quick':
        out += [{'prog': p} for p in gen.programs_upto(2, ALPHA)]
        out += [{'prog': p} for p in gen.sample(gen.flat_programs(3, ALPHA), 2500, seed)]
        inner = list(gen.programs_upto(2, ALPHA_IN))
        out += [{'prog': p} for p in gen.sample(gen.nested_programs(ALPHA_W[:2], inner, 2, reps=(1, 2)), 1500, seed + 1)]
        out += [{'prog': p} for p in gen.sample(gen.nested_programs(ALPHA_W[:2], inner, 3, reps=(1, 2)), 1200, seed + 2)]
    else:
        out += [{'prog': p} for p in gen.programs_upto(2, ALPHA)]
        out += [{'prog': p} for p in gen.sample(gen.flat_programs(3, ALPHA), 6000, seed)]
        out += [{'prog': p} for p in gen.sample(gen.flat_programs(4, ALPHA_W + [['G', 'Rx180', [0]]]), 5000, seed + 3)]
        inner = list(gen.programs_upto(2, ALPHA_IN)) + gen.sample(gen.flat_programs(3, ALPHA_IN), 300, seed)
        out += [{'prog': p} for p in gen.sample(gen.nested_programs(ALPHA_W[:2], inner, 2, reps=(1, 2, 3)), 5000, seed + 1)]
        out += [{'prog': p} for p in gen.sample(gen.nested_programs(ALPHA_W[:2], inner, 3, reps=(1, 2, 3)), 5000, seed + 2)]
        rng = random.Random(seed + 5)
        for _ in range(1500):
            p = gen.random_program(rng, ALPHA, 4, 2, reps=(1, 2))
            if gen.count_leaves(p) <= 8:
                out.append({'prog': p, 'random': True})
    return out


def check_program(ctx, nodes, enclosing, prefix='C01'):
    """Relation clauses for the steps of one (sub-)circuit, recursively."""
    depth = cm.relation_depths(nodes)
    for i, n in enumerate(nodes):
        s, e, d = cm.times(n.obj)
        ctx.observe(f'start[{n.label()}]', s)
        ctx.observe(f'end[{n.label()}]', e)
        what = {'step': n.label(), 'kind': n.kind[0], 'start': s, 'end': e, 'duration': d, 'rel': n.rel}
        ctx.check(f'{prefix}.end', e == s + d, what)
        if n.rel is not None:
            t, j = n.rel
            rs, re, _ = cm.times(nodes[j].obj)
            info = dict(what, ref=nodes[j].label(), ref_start=rs, ref_end=re, sub_with_relation=n.is_sub,
                        lost_relation=not n.obj.has_relation)
            if t == 'F':
                ctx.check(f'{prefix}.followed_by', s == re, info)
            elif t == 'S':
                ctx.check(f'{prefix}.joined_start', s == rs, info)
            else:
                ctx.check(f'{prefix}.joined_end', e == re, info)
        else:
            preds = cm.implicit_predecessors(nodes, i, depth)
            if not preds:
                es = enclosing.start_time
                # fingerprint of known finding F4b: the operation carries a JOINED_END link it was never given (handed down
                # from an enclosing sub-circuit by decomposed_operations) and therefore *ends* with that link's reference
                link = n.obj.relation_link
                ref = link.reference_node
                inherited = ref is not None and link.relation_type == RelationType.JOINED_END
                ctx.check(f'{prefix}.first', s == es, dict(what, enclosing_start=es, inherited_joined_end=inherited,
                                                          ends_with_inherited_reference=(e == ref.end_time) if inherited else False))
            else:
                ends = [nodes[j].obj.end_time for j in preds]
                ctx.check(f'{prefix}.implicit', s_or(*[s == x for x in ends]), dict(what, candidates=[nodes[j].label() for j in preds], cand_ends=ends))
        if n.is_sub:
            check_program(ctx, n.children, n.obj, prefix)


def check_links(ctx, ops, prefix):
    """Relation equations against the links the listed operations actually carry (used after unrolling)."""
    for k, o in enumerate(ops):
        s, e, d = cm.times(o)
        ctx.observe(f'{prefix}.start[{k}]', s)
        ctx.check(f'{prefix}.end', e == s + d, {'index': k, 'start': s, 'end': e, 'duration': d})
        link = o.relation_link
        ref = link.reference_node
        if ref is None:
            ctx.check(f'{prefix}.link', s == 0, {'index': k, 'start': s, 'relation': 'none'})
            continue
        t = link.relation_type
        rs, re, _ = cm.times(ref)
        info = {'index': k, 'start': s, 'end': e, 'ref_start': rs, 'ref_end': re, 'relation': t.name, 'link': type(link).__name__}
        group = getattr(link, '_reference_nodes', None)
        if group:
            # a copy chained behind a group of leaves: the reference is whichever member ends last *now* -- taken from the
            # group itself, not from what reference_node answers
            latest = cm.smax([x.end_time for x in group])
            ctx.check(f'{prefix}.group', re == latest, dict(info, group_ends=[x.end_time for x in group], latest_group_end=latest))
        if t == RelationType.FOLLOWED_BY:
            ctx.check(f'{prefix}.link', s == re, info)
        elif t == RelationType.JOINED_START:
            ctx.check(f'{prefix}.link', s == rs, info)
        else:
            ctx.check(f'{prefix}.link', e == re, info)


def has_rep(prog):
    return any(s['k'][0] == 'S' and (s['k'][1].get('rep', 1) > 1 or has_rep(s['k'][1])) for s in prog['steps'])


def run(ctx, params):
    g = cm.Globals(ctx)
    with g.override():
        built = cm.build(ctx, params['prog'])
        circuit = built.circuit
        ops = circuit.operations
        ctx.observe('n_ops', len(ops))
        check_program(ctx, built.nodes, circuit.circuit_structure)
        if params.get('late_set'):
            # "all duration assignments": the assignment arrives after a first reading; the same objects are read again, no listing in between
            for i, (key, node) in enumerate(built.unset_keys.items()):
                v = ctx.real(f'v_late{i}', lo=0)
                built.registry.set_registry_at(key, v)
                node.dur = v
            check_program(ctx, built.nodes, circuit.circuit_structure, prefix='C01.after_assignment')
            return
        unrolled = circuit.apply_modifiers()
        uops = unrolled.operations
        ctx.observe('n_unrolled', len(uops))
        check_links(ctx, uops, 'C01.unrolled')
