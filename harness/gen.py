"""Enumerators of build-program shapes (JSON-serialisable), shared by the circuit properties."""
from __future__ import annotations

import itertools
import random
from typing import List, Optional


def rel_options(i: int, types: str = 'FSE', allow_none: bool = True) -> list:
    out = [None] if allow_none else []
    for j in range(i):
        for t in types:
            out.append([t, j])
    return out


def flat_programs(n: int, alphabet: list, types: str = 'FSE', first_rel_none: bool = True):
    """All programs of exactly n leaf steps over `alphabet` with every relation option."""
    def rec(i, steps):
        if i == n:
            yield {'steps': steps}
            return
        for k in alphabet:
            for rel in rel_options(i, types):
                yield from rec(i + 1, steps + [{'k': k, 'rel': rel}])
    yield from rec(0, [])


def programs_upto(nmax: int, alphabet: list, types: str = 'FSE'):
    for n in range(1, nmax + 1):
        yield from flat_programs(n, alphabet, types)


def nested_programs(outer_alphabet: list, inner_progs: list, n_outer: int, types: str = 'FSE', reps=(1,), sub_positions=None):
    """Programs with n_outer steps where exactly one step is a sub-circuit drawn from inner_progs (any position)."""
    for pos in (range(n_outer) if sub_positions is None else sub_positions):
        def rec(i, steps):
            if i == n_outer:
                yield {'steps': steps}
                return
            if i == pos:
                for inner in inner_progs:
                    for rep in reps:
                        sub = dict(inner)
                        if rep != 1:
                            sub['rep'] = rep
                        for rel in rel_options(i, types):
                            yield from rec(i + 1, steps + [{'k': ['S', sub], 'rel': rel}])
            else:
                for k in outer_alphabet:
                    for rel in rel_options(i, types):
                        yield from rec(i + 1, steps + [{'k': k, 'rel': rel}])
        yield from rec(0, [])


def count_leaves(prog: dict) -> int:
    n = 0
    for s in prog['steps']:
        n += count_leaves(s['k'][1]) * s['k'][1].get('rep', 1) if s['k'][0] == 'S' else 1
    return n


def random_program(rng: random.Random, alphabet: list, max_steps: int, depth: int, types: str = 'FSE', p_sub: float = 0.3,
                   p_rel: float = 0.5, reps=(1, 2), sub_rel: bool = True) -> dict:
    n = rng.randint(1, max_steps)
    steps = []
    for i in range(n):
        rel = None
        if i > 0 and rng.random() < p_rel:
            rel = [rng.choice(types), rng.randrange(i)]
        if depth > 0 and rng.random() < p_sub:
            sub = random_program(rng, alphabet, max(1, max_steps - 1), depth - 1, types, p_sub, p_rel, reps, sub_rel)
            r = rng.choice(list(reps))
            if r != 1:
                sub['rep'] = r
            steps.append({'k': ['S', sub], 'rel': rel if sub_rel else None})
        else:
            steps.append({'k': rng.choice(alphabet), 'rel': rel})
    return {'steps': steps}


def sample(seq, k: int, seed: int) -> list:
    seq = list(seq)
    if len(seq) <= k:
        return seq
    rng = random.Random(seed)
    return rng.sample(seq, k)
