"""
Depth-first exploration of all feasible paths of a harness function by re-execution,
with a concrete twin run per path and concrete replay of every counterexample.
"""
from __future__ import annotations

import os
import sys
import time
import traceback
import warnings
from fractions import Fraction
from typing import Any, Callable, Dict, List, Optional

from . import core
from .core import (Ctx, PathAbort, Inconclusive, EngineUnsupported, EngineNondeterminism, BudgetExceeded,
                   eval_sym, _jsonable)

_ORIG = {}


class _MemoModel:
    """
    Pure-Python model of `functools.lru_cache(maxsize=None)` on a method (self, duration), installed for symbolic paths only.
    The real C cache finds an entry only if the *hashes* of the keys agree, so a literal 0.0 of the library and a symbolic
    duration that may equal 0.0 would silently miss each other (DESIGN 3.3, mixed keys).  The model keeps, per link object
    (links carry a unique identifier, so link equality is identity), the list of (duration, value) entries and compares
    durations with `==`, i.e. a solver-decided fork.  The concrete twin of every path runs the real lru_cache.
    """
    def __init__(self, real):
        self.real = real
        self.fn = real.__wrapped__
        self.entries = {}
        self.__wrapped__ = self.fn

    def __get__(self, obj, objtype=None):
        if obj is None:
            return self
        import functools
        return functools.partial(self.__call__, obj)

    def __call__(self, link, duration):
        # The real cache is a dict keyed by (link, duration): an entry is found only if the *current* hash of the link equals
        # the hash it had when the entry was stored.  A link hashes through its reference operation, whose dataclass hash
        # includes its (mutable) relation -- re-linking an operation therefore silently orphans every memo entry of the links
        # that refer to it.  The model reproduces this: entries remember the hash at insertion time.
        h = hash(link)
        lst = self.entries.setdefault(id(link), (link, []))[1]
        for eh, d, v in lst:
            if eh == h and (d is duration or d == duration):
                return v
        v = self.fn(link, duration=duration)
        lst.append((h, duration, v))
        return v

    def cache_clear(self):
        self.entries.clear()
        self.real.cache_clear()

    def cache_info(self):
        return self.real.cache_info()


def install_memo_model(on: bool):
    """Symbolic paths run with the memo model, concrete runs with the real lru_cache."""
    try:
        from qce_circuit.structure.intrf_circuit_operation import RelationLink, MultiRelationLink
    except Exception:
        return
    for cls in (RelationLink, MultiRelationLink):
        cur = cls.__dict__.get('get_start_time')
        key = ('memo', cls.__name__)
        if on:
            if isinstance(cur, _MemoModel):
                cur.cache_clear()
                continue
            if hasattr(cur, 'cache_clear') and hasattr(cur, '__wrapped__') and getattr(cur, 'cache_parameters', lambda: {})().get('maxsize', 0) is None:
                _ORIG[key] = cur
                setattr(cls, 'get_start_time', _MemoModel(cur))
        else:
            if isinstance(cur, _MemoModel):
                setattr(cls, 'get_start_time', cur.real)


def reset_env():
    """Each path models a fresh process: memo caches cleared, global registry getter restored."""
    os.environ.setdefault('TQDM_DISABLE', '1')
    try:
        from qce_circuit.structure.intrf_circuit_operation import RelationLink, MultiRelationLink
        from qce_circuit.structure.registry_duration import GlobalDurationRegistry
    except Exception:  # stdlib-only harnesses
        return
    for cls in (RelationLink, MultiRelationLink):
        f = getattr(cls, 'get_start_time', None)
        if hasattr(f, 'cache_clear'):
            f.cache_clear()
    if 'get_registry_at' not in _ORIG:
        _ORIG['get_registry_at'] = GlobalDurationRegistry.get_registry_at
    GlobalDurationRegistry.get_registry_at = _ORIG['get_registry_at']


def _same(expected, got, exact: bool) -> bool:
    """expected: evaluated symbolic observation (Fractions); got: concrete observation."""
    try:
        import numpy as np
        if isinstance(got, np.ndarray):
            got = got.tolist()
        if isinstance(got, (np.integer,)):
            got = int(got)
        if isinstance(got, (np.floating,)):
            got = float(got)
        if isinstance(expected, np.ndarray):
            expected = expected.tolist()
    except ImportError:  # pragma: no cover
        pass
    if isinstance(expected, (list, tuple)) or isinstance(got, (list, tuple)):
        if not isinstance(expected, (list, tuple)) or not isinstance(got, (list, tuple)) or len(expected) != len(got):
            return False
        return all(_same(e, g, exact) for e, g in zip(expected, got))
    if isinstance(expected, dict):
        return isinstance(got, dict) and set(map(str, expected)) == set(map(str, got)) and all(
            _same(v, got[k] if k in got else got[str(k)], exact) for k, v in expected.items())
    if isinstance(expected, bool) or isinstance(got, bool):
        return bool(expected) == bool(got)
    if isinstance(expected, (int, float, Fraction)) and isinstance(got, (int, float, Fraction)):
        if isinstance(got, float) and (got != got or got in (float('inf'), float('-inf'))):
            return isinstance(expected, float) and expected == got
        if isinstance(expected, float) and expected in (float('inf'), float('-inf')):
            return expected == got
        e, g = Fraction(expected), Fraction(got)
        if e == g:
            return True
        if exact:
            return False
        return abs(e - g) <= Fraction(1, 10 ** 9) * max(1, abs(e), abs(g))
    return expected == got


def _on_grid(model: dict) -> bool:
    for v in model.values():
        if isinstance(v, (list, tuple)):
            den = v[1]
            if den & (den - 1):
                return False
    return True


class JobResult:
    def __init__(self, params):
        self.params = params
        self.paths = 0
        self.infeasible = 0
        self.decisions = 0
        self.twins = 0
        self.nontrivial = 0
        self.stats: Dict[str, float] = {}
        self.violations: List[dict] = []       # confirmed by concrete replay
        self.unconfirmed: List[dict] = []      # symbolic violation that did not replay -> harness error
        self.errors: List[str] = []
        self.reached: Dict[str, int] = {}
        self.samples: List[dict] = []
        self.notes: Dict[str, Any] = {}
        self.wall_s = 0.0

    def to_dict(self):
        return self.__dict__


def run_concrete(run_fn: Callable, params: dict, model: dict, choices: list) -> Ctx:
    install_memo_model(False)
    reset_env()
    ctx = Ctx('conc', model=model, choices=choices)
    with warnings.catch_warnings():
        warnings.simplefilter('ignore')
        run_fn(ctx, params)
    return ctx


def explore_job(run_fn: Callable, params: dict, max_paths: int = 20000, max_seconds: float = 600.0,
                twin: bool = True, twin_every: int = 1, max_violations: int = 8) -> JobResult:
    import z3
    res = JobResult(params)
    t0 = time.perf_counter()
    solver = z3.Solver()
    stats: Dict[str, float] = {}
    stack: List[list] = [[]]
    while stack:
        if res.paths + res.infeasible >= max_paths or time.perf_counter() - t0 > max_seconds:
            res.errors.append(f"budget exceeded after {res.paths} paths / {time.perf_counter() - t0:.0f}s (inconclusive)")
            break
        prefix = stack.pop()
        install_memo_model(True)
        reset_env()
        ctx = Ctx('sym', prefix=prefix, solver=solver, stats=stats)
        completed = False
        try:
            with warnings.catch_warnings():
                warnings.simplefilter('ignore')
                run_fn(ctx, params)
            completed = True
        except PathAbort:
            res.infeasible += 1
        except Inconclusive as ex:
            res.errors.append(f"inconclusive: {ex}")
        except EngineUnsupported as ex:
            res.errors.append("unsupported: " + str(ex) + " @ " + _where())
        except EngineNondeterminism as ex:
            res.errors.append(f"nondeterminism: {ex}")
        except RecursionError as ex:
            res.errors.append("harness exception: RecursionError")
        except Exception as ex:  # an exception of the code under test that the harness did not expect
            crash = f"harness exception: {type(ex).__name__}: {ex} @ " + _where()
            # a crash *after* a violation was recorded is most likely a consequence of it: replay the violations first
            confirmed = 0
            for v in ctx.violations:
                rec = {'label': v.label, 'info': v.info, 'model': v.model, 'choices': v.choices, 'params': params}
                try:
                    c3 = run_concrete(run_fn, params, v.model, v.choices)
                    ok = any(l == v.label and r == 'violated' for l, r in c3.check_results)
                except BaseException:  # noqa: the concrete run crashes the same way; checks made before the crash are lost
                    ok = _replay_until_crash(run_fn, params, v)
                if ok:
                    confirmed += 1
                    res.violations.append(rec)
            if not confirmed:
                res.errors.append(crash)
        stack.extend(reversed(ctx.pending))
        if not completed:
            ctx.close()
            if len(res.errors) > 20:
                break
            continue
        res.paths += 1
        res.decisions += len(ctx.trace)
        nontrivial = any(e[0] in ('b', 'e') and (e[0] == 'e' or e[3]) for e in ctx.trace) or \
            (stats.get('obligations', 0) - stats.get('ground', 0)) > res.stats.get('_nonground_seen', 0)
        res.stats['_nonground_seen'] = stats.get('obligations', 0) - stats.get('ground', 0)
        if nontrivial:
            res.nontrivial += 1
        for k, v in ctx.reached.items():
            res.reached[k] = res.reached.get(k, 0) + v
        for k, v in ctx.notes.items():
            res.notes.setdefault(k, v)
        # ---- twin run -----------------------------------------------------------------------
        try:
            if twin and ((res.paths - 1) % twin_every == 0 or ctx.violations):
                model = ctx.path_model()
                exact = _on_grid(model)
                try:
                    c2 = run_concrete(run_fn, params, model, ctx.choices_out)
                except PathAbort:
                    res.errors.append(f"twin aborted where the symbolic path completed; choices={ctx.choices_out} model={model}")
                    c2 = None
                except Exception as ex:
                    res.errors.append(f"twin raised {type(ex).__name__}: {ex}; choices={ctx.choices_out} model={model} @ " + _where())
                    c2 = None
                if c2 is not None:
                    res.twins += 1
                    if [l for l, _ in c2.observations] != [l for l, _ in ctx.observations]:
                        res.errors.append(f"twin mismatch: observation labels differ; choices={ctx.choices_out} model={model}")
                    else:
                        for (lab, sv), (_, cv) in zip(ctx.observations, c2.observations):
                            ev = eval_sym(sv, model)
                            if not _same(ev, cv, exact):
                                res.errors.append(f"twin mismatch at {lab}: symbolic {_jsonable(ev)} concrete {_jsonable(cv)}; "
                                                  f"choices={ctx.choices_out} model={model}")
                                break
                    if [l for l, _ in c2.check_results] != [l for l, _ in ctx.check_results]:
                        res.errors.append(f"twin mismatch: check labels differ; choices={ctx.choices_out} model={model}")
                    else:
                        for (lab, sr), (_, cr) in zip(ctx.check_results, c2.check_results):
                            if sr == 'ok' and cr != 'ok':
                                res.errors.append(f"twin mismatch: {lab} discharged symbolically but false concretely; "
                                                  f"choices={ctx.choices_out} model={model}")
                                break
                if len(res.samples) < 2:
                    res.samples.append({'params': params, 'choices': ctx.choices_out, 'decisions': len(ctx.trace),
                                        'path_condition': [_fmt_dec(e) for e in ctx.trace[:12]], 'model': model})
            # ---- replay of counterexamples ----------------------------------------------------------
            for v in ctx.violations:
                if len(res.violations) >= max_violations:
                    break
                rec = {'label': v.label, 'info': v.info, 'model': v.model, 'choices': v.choices, 'params': params}
                try:
                    c3 = run_concrete(run_fn, params, v.model, v.choices)
                    ok = any(l == v.label and r == 'violated' for l, r in c3.check_results)
                except PathAbort:
                    ok = False
                except Exception as ex:
                    ok = False
                    rec['replay_exception'] = f"{type(ex).__name__}: {ex}"
                if ok:
                    res.violations.append(rec)
                else:
                    res.unconfirmed.append(rec)
        except Inconclusive as ex:
            res.errors.append(f"inconclusive: {ex}")
        except PathAbort:
            res.errors.append("path model vanished (engine error)")
        ctx.close()
        if len(res.violations) >= max_violations or len(res.errors) > 20:
            break
    res.stats.update({k: v for k, v in stats.items()})
    res.stats.pop('_nonground_seen', None)
    res.wall_s = time.perf_counter() - t0
    return res


def _replay_until_crash(run_fn, params, v) -> bool:
    """Concrete replay where the harness itself crashes after the violated check: inspect the checks made before the crash."""
    install_memo_model(False)
    reset_env()
    ctx = Ctx('conc', model=v.model, choices=v.choices)
    try:
        with warnings.catch_warnings():
            warnings.simplefilter('ignore')
            run_fn(ctx, params)
    except BaseException:  # noqa
        pass
    return any(l == v.label and r == 'violated' for l, r in ctx.check_results)


def _fmt_dec(e):
    if e[0] == 'b':
        k = e[1]
        return f"{'' if e[2] else 'not '}{k[0]}({_fmt_key(k[1])}){' [fork]' if e[3] else ''}"
    if e[0] == 'c':
        return f"choice {e[1]}={e[2]}/{e[3]}"
    return f"enum {e[1]}={e[2]}"


def _fmt_key(k):
    if isinstance(k, tuple) and k and k[0] == 'ast':
        return k[1]
    if isinstance(k, tuple) and len(k) == 3:
        lin, const, _ = k
        s = " + ".join((f"{c}*{v}" if c != 1 else v) for v, c in lin)
        if const != 0:
            s += f" + {const}"
        return s + " ~ 0"
    return str(k)


def _where():
    tb = traceback.extract_tb(sys.exc_info()[2])
    frames = [f"{os.path.basename(f.filename)}:{f.lineno}" for f in tb[-4:]]
    return ">".join(frames)
