"""
Entry point behind /verif/check:   check <ID> [--tier quick|thorough] [--replay PATH] [--jobs N]

Exit codes: 0 property held on everything explored (KNOWN-FINDING lines may be printed);
            1 replay-confirmed violation not listed in known_findings.json;
            3 harness error / inconclusive (never reported as success, never as VIOLATION).
"""
from __future__ import annotations

import argparse
import hashlib
import importlib
import json
import multiprocessing as mp
import os
import sys
import time

ROOT = os.path.dirname(os.path.dirname(os.path.abspath(__file__)))
sys.path.insert(0, ROOT)
os.environ.setdefault('TQDM_DISABLE', '1')
os.environ.setdefault('MPLBACKEND', 'Agg')
sys.setrecursionlimit(100000)


def _load(pid: str):
    return importlib.import_module(f"harness.{pid.lower()}")


def _work(arg):
    modname, params, opts = arg
    from symx.explore import explore_job
    mod = importlib.import_module(modname)
    try:
        res = explore_job(mod.run, params, **opts)
        return res.to_dict()
    except BaseException as ex:  # noqa  (engine bug: report as harness error)
        import traceback
        return {'params': params, 'paths': 0, 'infeasible': 0, 'decisions': 0, 'twins': 0, 'nontrivial': 0, 'stats': {},
                'violations': [], 'unconfirmed': [], 'errors': [f"engine crash: {type(ex).__name__}: {ex}\n{traceback.format_exc()[-1500:]}"],
                'reached': {}, 'samples': [], 'notes': {}, 'wall_s': 0.0}


def load_known():
    p = os.path.join(ROOT, 'known_findings.json')
    if not os.path.exists(p):
        return []
    return json.load(open(p)).get('findings', [])


def match_known(pid, viol, known):
    for k in known:
        if k.get('status') != 'open' or k.get('property') != pid:
            continue
        if not viol['label'].startswith(k.get('label_prefix', '')):
            continue
        info = viol.get('info', {}) or {}

        def holds(a, b):
            if a == '@same_multiset':   # b = [key1, key2]: the two lists in the counterexample's info are permutations of each other
                try:
                    x, y = info.get(b[0]), info.get(b[1])
                    return isinstance(x, list) and isinstance(y, list) and x != y and sorted(map(json.dumps, x)) == sorted(map(json.dumps, y))
                except Exception:
                    return False
            return info.get(a) == b
        if all(holds(a, b) for a, b in k.get('match', {}).items()):
            return k
    return None


def write_replay(pid, viol):
    d = os.path.join(ROOT, 'replays', pid)
    os.makedirs(d, exist_ok=True)
    blob = json.dumps({'property': pid, **viol}, sort_keys=True, default=str)
    h = hashlib.sha1(blob.encode()).hexdigest()[:12]
    path = os.path.join(d, f"{h}.json")
    with open(path, 'w') as f:
        f.write(json.dumps({'property': pid, **viol}, indent=1, default=str))
    return path


def do_replay(pid, path):
    from symx.explore import run_concrete
    from symx.core import PathAbort
    mod = _load(pid)
    rec = json.load(open(path))
    if 'extra_replay' in rec and hasattr(mod, 'replay_extra'):
        ok = mod.replay_extra(rec)
    else:
        import warnings
        from symx.core import Ctx
        from symx.explore import reset_env, install_memo_model
        install_memo_model(False)
        reset_env()
        ctx = Ctx('conc', model=rec['model'], choices=rec['choices'])
        try:
            with warnings.catch_warnings():
                warnings.simplefilter('ignore')
                mod.run(ctx, rec['params'])
        except PathAbort:
            print("replay: assumptions not met by recorded model")
            return 3
        except Exception as ex:  # noqa: a crash after the violated check is part of the symptom
            print(f"  (run raised {type(ex).__name__}: {ex} after the checks below)")
        print(f"replay of {rec['label']} with params={rec['params']} model={rec['model']} choices={rec['choices']}")
        for lab, val in ctx.observations:
            print(f"  observed {lab} = {val}")
        for lab, r in ctx.check_results:
            if r != 'ok' or lab == rec['label']:
                print(f"  check {lab}: {r}")
        ok = any(l == rec['label'] and r == 'violated' for l, r in ctx.check_results)
    if ok:
        print(f"VIOLATION property={pid} replay={path}")
        return 1
    print("replay: violation does NOT reproduce on this tree")
    return 0


def main(argv=None):
    ap = argparse.ArgumentParser()
    ap.add_argument('pid')
    ap.add_argument('--tier', default=os.environ.get('VERIF_TIER', 'quick'), choices=['quick', 'thorough'])
    ap.add_argument('--replay')
    ap.add_argument('--procs', type=int, default=int(os.environ.get('VERIF_PROCS', '16')))
    ap.add_argument('--only', help='substring filter on job params (debug)')
    ap.add_argument('--no-evidence', action='store_true')
    args = ap.parse_args(argv)
    pid = args.pid.upper()
    if args.replay:
        return do_replay(pid, args.replay)
    seed = int(os.environ.get('VERIF_SEED', '0') or 0)
    t0 = time.time()
    mod = _load(pid)
    jobs = mod.jobs(args.tier, seed)
    if args.only:
        jobs = [j for j in jobs if args.only in json.dumps(j)]
    opts = dict(getattr(mod, 'JOB_OPTS', {}).get(args.tier, {}))
    work = [(mod.__name__, j, opts) for j in jobs]
    results = []
    if work:
        if args.procs > 1 and len(work) > 1:
            ctxmp = mp.get_context('fork')
            with ctxmp.Pool(min(args.procs, len(work))) as pool:
                chunk = max(1, min(8, len(work) // (args.procs * 8)))
                for r in pool.imap_unordered(_work, work, chunksize=chunk):
                    results.append(r)
        else:
            results = [_work(w) for w in work]
    # ---- extra engines (CrossHair, AST->SMT lemmas, table queries) ----------------------------------
    extra = {}
    if hasattr(mod, 'extra'):
        try:
            extra = mod.extra(args.tier, seed) or {}
        except BaseException as ex:  # noqa
            import traceback
            extra = {'errors': [f"extra engine crashed: {type(ex).__name__}: {ex} {traceback.format_exc()[-800:]}"]}
    # ---- aggregate ----------------------------------------------------------------------------------------
    agg = {'paths': 0, 'infeasible': 0, 'decisions': 0, 'twins': 0, 'nontrivial': 0}
    stats = {}
    errors, violations, unconfirmed, samples, reached, notes = [], [], [], [], {}, {}
    truncated = []
    allowed_truncations = 0 if getattr(mod, 'EXHAUSTIVE', {}).get(args.tier, False) else int(getattr(mod, 'TRUNCATION_OK', {}).get(args.tier, 0))
    for r in results:
        for k in agg:
            agg[k] += r[k]
        for k, v in r['stats'].items():
            stats[k] = stats.get(k, 0) + v
        for e in r['errors']:
            msg = f"{e}   [job {json.dumps(r['params'])[:200]}]"
            # a *sampled*, non-exhaustive tier may declare that a small number of its random jobs may run out of their path/time budget:
            # the paths explored so far stay checked, the job is listed as truncated (evidence + TRUNCATED line), nothing is claimed for the rest
            if e.startswith('budget exceeded') and len(truncated) < allowed_truncations:
                truncated.append(msg)
            else:
                errors.append(msg)
        violations += r['violations']
        unconfirmed += r['unconfirmed']
        for k, v in r['reached'].items():
            reached[k] = reached.get(k, 0) + v
        for k, v in r['notes'].items():
            notes.setdefault(k, v)
        if len(samples) < 4:
            samples += r['samples'][:1]
    for u in unconfirmed:
        errors.append(f"counterexample for {u['label']} did not reproduce concretely (engine/stub error): "
                      f"params={json.dumps(u['params'])[:200]} model={u['model']} {u.get('replay_exception', '')}")
    errors += list(extra.get('errors', []))
    for v in extra.get('violations', []):
        if v.get('extra_replay') and hasattr(mod, 'replay_extra'):
            import io, contextlib
            buf = io.StringIO()
            try:
                with contextlib.redirect_stdout(buf):
                    ok = bool(mod.replay_extra(v))
            except Exception as ex:  # noqa
                ok = False
                buf.write(f"{type(ex).__name__}: {ex}")
            if ok:
                v.setdefault('info', {})['replay'] = buf.getvalue().strip()[:400]
                violations.append(v)
            else:
                errors.append(f"solver counterexample for {v['label']} did not reproduce on the real code: {v.get('model')} {buf.getvalue()[:200]}")
        else:
            violations.append(v)
    for k, v in extra.get('reached', {}).items():
        reached[k] = reached.get(k, 0) + v
    missing = [lab for lab in getattr(mod, 'REQUIRED_REACH', []) if reached.get(lab, 0) == 0]
    if missing and not args.only:
        errors.append(f"vacuity: assertion labels never reached on any feasible path: {missing}")
    # ---- known findings ---------------------------------------------------------------------------------------
    known = load_known()
    new_viol, known_hits = [], {}
    for v in violations:
        k = match_known(pid, v, known)
        if k is None:
            new_viol.append(v)
        else:
            known_hits.setdefault(k['id'], {'finding': k, 'count': 0, 'example': v})
            known_hits[k['id']]['count'] += 1
    if os.environ.get('VERIF_DUMP'):
        json.dump({'violations': violations, 'errors': errors}, open(os.environ['VERIF_DUMP'], 'w'), default=str)
    wall = time.time() - t0
    # ---- evidence ----------------------------------------------------------------------------------------------
    states = agg['paths'] + int(extra.get('states', 0))
    transitions = agg['decisions'] + int(extra.get('transitions', 0)) + int(stats.get('model_steps', 0))   # + steps of an executed state model (C09 tableau)
    obligations = int(stats.get('obligations', 0)) + int(extra.get('obligations', 0))
    discharged = int(stats.get('discharged', 0)) + int(extra.get('discharged', 0))
    if not samples:
        samples = list(extra.get('samples', []))[:4]
    else:
        samples += list(extra.get('samples', []))[:2]
    evidence = {
        'property_id': pid, 'tier': args.tier, 'seed': seed, 'level': 'model_checking',
        'coverage': {
            'states': states, 'transitions': transitions,
            'traces_validated_against_impl': agg['twins'] + int(extra.get('twins', 0)),
            'samples': samples or [{'note': 'no sample recorded'}],
            'evaluations': len(jobs) + int(extra.get('evaluations', 0)),
            'distinct_nontrivial': agg['nontrivial'] + int(extra.get('nontrivial', 0)),
            'rule': getattr(mod, 'RULE', "one evaluation = one job (program shape / constructor input); a state = one feasible "
                                         "symbolic path of the real code for that job; non-trivial = path with at least one solver-decided "
                                         "fork or at least one non-ground obligation (counted per path)"),
            'obligations': obligations, 'discharged': discharged,
            'exhaustive': bool(getattr(mod, 'EXHAUSTIVE', {}).get(args.tier, False)) and not errors,
            'jobs': len(jobs), 'infeasible_paths': agg['infeasible'],
            'queries': int(stats.get('queries', 0)) + int(extra.get('queries', 0)),
            'solver_s': round(float(stats.get('solver_s', 0.0)) + float(extra.get('solver_s', 0.0)), 3),
            'forks': int(stats.get('forks', 0)), 'forced_decisions': int(stats.get('forced', 0)),
            'atom_cache_hits': int(stats.get('cache_hits', 0)),
            'functions_encoded': getattr(mod, 'FUNCTIONS', []),
            'bounds': getattr(mod, 'BOUNDS', {}).get(args.tier, ''),
            'outside_bounds': getattr(mod, 'OUTSIDE', []),
            'reached_labels': reached,
            'known_findings_matched': {k: v['count'] for k, v in known_hits.items()},
            'harness_errors': errors[:10],
            'truncated_jobs': truncated[:20], 'truncated_jobs_allowed': allowed_truncations,
            'extra_engines': extra.get('evidence', {}),
            'notes': notes,
            'explanation': getattr(mod, '__doc__', '') or '',
        },
        'assumptions': getattr(mod, 'ASSUMPTIONS', []),
        'wall_s': round(wall, 2),
        'violations': len(new_viol),
    }
    if not args.no_evidence and not args.only:
        os.makedirs(os.path.join(ROOT, 'evidence'), exist_ok=True)
        with open(os.path.join(ROOT, 'evidence', f"{pid}.json"), 'w') as f:
            json.dump(evidence, f, indent=1, default=str)
    # ---- report ---------------------------------------------------------------------------------------------------
    print(f"[{pid} {args.tier}] jobs={len(jobs)} paths={states} decisions={transitions} twins={evidence['coverage']['traces_validated_against_impl']} "
          f"obligations={obligations} discharged={discharged} queries={evidence['coverage']['queries']} "
          f"solver_s={evidence['coverage']['solver_s']} wall_s={wall:.1f}")
    for t_ in truncated[:5]:
        print(f"TRUNCATED: property={pid} (sampled job, explored paths checked, rest not claimed) {t_[:300]}")
    for kid, h in known_hits.items():
        print(f"KNOWN-FINDING: property={pid} {kid} {h['finding'].get('what', '')} ({h['count']} counterexamples, e.g. "
              f"{json.dumps(h['example']['params'])[:160]})")
    rc = 0
    if new_viol:
        seen = set()
        for v in new_viol:
            sig = (v['label'], json.dumps(v.get('info', {}), sort_keys=True, default=str)[:200])
            if sig in seen and len(seen) > 5:
                continue
            seen.add(sig)
            path = write_replay(pid, v)
            print(f"VIOLATION property={pid} replay={path}")
            print(f"   label={v['label']} info={json.dumps(v.get('info', {}), default=str)[:400]} params={json.dumps(v.get('params'))[:300]} model={v.get('model')}")
            if len(seen) >= 12:
                break
        rc = 1
    if errors:
        for e in errors[:12]:
            print(f"HARNESS-ERROR property={pid} {e[:1200]}")
        if rc == 0:
            rc = 3
    return rc


if __name__ == '__main__':
    sys.exit(main())
