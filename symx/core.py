"""
symx -- symbolic execution of real Python code by re-execution (DESIGN.md section 3).

Symbolic values (`Sym`) are ordinary Python objects that wrap a linear normal form
(sum of Fraction * variable + Fraction) or, when non-linear, a z3 term.  A comparison
returns a `SymBool`; `SymBool.__bool__` asks z3 whether both outcomes are feasible under
the current path condition and follows a decision schedule.  `explore()` re-executes the
harness once per path, depth first over decision prefixes.

hash(Sym) is a constant and `==` returns a SymBool, so that C-level containers (dict, set,
functools.lru_cache, dataclass generated __eq__/__hash__) degenerate to semantic equality
decided by the solver -- "cache hit iff the durations are equal".
"""
from __future__ import annotations

import math
import time
from fractions import Fraction
from typing import Any, Callable, Dict, List, Optional, Tuple

import z3

INF = float('inf')


# ---------------------------------------------------------------------------------------
# Exceptions.  All derive from BaseException: the code under test has `except Exception`.
# ---------------------------------------------------------------------------------------
class PathAbort(BaseException):
    """Current path is infeasible / assumption cannot be met."""


class Inconclusive(BaseException):
    """Solver returned unknown / timeout; the path (and therefore the check) is inconclusive."""


class EngineUnsupported(BaseException):
    """The code under test asked for something the engine cannot represent (float(sym), ...)."""


class EngineNondeterminism(BaseException):
    """Re-execution did not reproduce the recorded decision prefix."""


class BudgetExceeded(BaseException):
    """Exploration budget (paths / seconds) of a job exhausted: inconclusive, never a pass."""


def _frac(x) -> Fraction:
    if isinstance(x, Fraction):
        return x
    if isinstance(x, bool):
        return Fraction(int(x))
    if isinstance(x, int):
        return Fraction(x)
    if isinstance(x, float):
        if math.isinf(x) or math.isnan(x):
            raise EngineUnsupported(f"non-finite constant {x} in arithmetic")
        return Fraction(x)  # exact
    # numpy scalars
    try:
        import numpy as np
        if isinstance(x, np.integer):
            return Fraction(int(x))
        if isinstance(x, np.floating):
            return Fraction(float(x))
    except ImportError:  # pragma: no cover
        pass
    raise TypeError(f"not a number: {x!r}")


def _is_num(x) -> bool:
    if isinstance(x, (int, float, Fraction)):
        return True
    try:
        import numpy as np
        return isinstance(x, (np.integer, np.floating))
    except ImportError:  # pragma: no cover
        return False


# ---------------------------------------------------------------------------------------
# Symbolic numbers
# ---------------------------------------------------------------------------------------
class Sym:
    """Symbolic number: linear form  sum(coef[v] * v) + const, or a raw z3 term (`ast`)."""
    __slots__ = ('ctx', 'lin', 'const', 'ast', 'is_int')

    def __init__(self, ctx: 'Ctx', lin: Optional[Dict[str, Fraction]], const: Fraction = Fraction(0), ast=None, is_int: bool = False):
        self.ctx = ctx
        self.lin = lin
        self.const = const
        self.ast = ast
        self.is_int = is_int

    # -- construction helpers ----------------------------------------------------------
    @staticmethod
    def _lift(ctx, x) -> Optional['Sym']:
        if isinstance(x, Sym):
            return x
        if isinstance(x, bool):
            return Sym(ctx, {}, Fraction(int(x)), is_int=True)
        if _is_num(x):
            if isinstance(x, float) and (math.isinf(x) or math.isnan(x)):
                return None
            f = _frac(x)
            is_int = not isinstance(x, (float, Fraction))
            try:
                import numpy as np
                if isinstance(x, np.floating):
                    is_int = False
            except ImportError:  # pragma: no cover
                pass
            return Sym(ctx, {}, f, is_int=is_int)
        return None

    @property
    def is_const(self) -> bool:
        return self.ast is None and not self.lin

    def z3(self):
        if self.ast is not None:
            return self.ast
        return self.ctx._lin_to_z3(self.lin, self.const, self.is_int)

    def _key(self):
        if self.ast is not None:
            return ('ast', self.ast.get_id())
        return (tuple(sorted(self.lin.items())), self.const)

    # -- arithmetic ---------------------------------------------------------------------
    def _binop_lin(self, other: 'Sym', sign: int) -> 'Sym':
        if self.ast is not None or other.ast is not None:
            a, b = self.z3(), other.z3()
            a, b = _coerce_pair(a, b)
            return Sym(self.ctx, None, ast=(a + b) if sign > 0 else (a - b), is_int=self.is_int and other.is_int)
        lin = dict(self.lin)
        for v, c in other.lin.items():
            n = lin.get(v, 0) + sign * c
            if n == 0:
                lin.pop(v, None)
            else:
                lin[v] = n
        return Sym(self.ctx, lin, self.const + sign * other.const, is_int=self.is_int and other.is_int)

    def __add__(self, other):
        o = Sym._lift(self.ctx, other)
        if o is None:
            if isinstance(other, float) and math.isinf(other):
                return other
            return NotImplemented
        return self._binop_lin(o, +1)

    __radd__ = __add__

    def __sub__(self, other):
        o = Sym._lift(self.ctx, other)
        if o is None:
            if isinstance(other, float) and math.isinf(other):
                return -other
            return NotImplemented
        return self._binop_lin(o, -1)

    def __rsub__(self, other):
        o = Sym._lift(self.ctx, other)
        if o is None:
            if isinstance(other, float) and math.isinf(other):
                return other
            return NotImplemented
        return o._binop_lin(self, -1)

    def _scale(self, k: Fraction, k_is_int: bool) -> 'Sym':
        if self.ast is not None:
            kz = z3.IntVal(int(k)) if (k_is_int and self.is_int) else z3.RealVal(str(k))
            a = self.ast
            if not (k_is_int and self.is_int) and a.sort() == z3.IntSort():
                a = z3.ToReal(a)
            return Sym(self.ctx, None, ast=a * kz, is_int=self.is_int and k_is_int)
        if k == 0:
            return Sym(self.ctx, {}, Fraction(0), is_int=self.is_int and k_is_int)
        return Sym(self.ctx, {v: c * k for v, c in self.lin.items()}, self.const * k, is_int=self.is_int and k_is_int)

    def __mul__(self, other):
        o = Sym._lift(self.ctx, other)
        if o is None:
            return NotImplemented
        if o.is_const:
            return self._scale(o.const, o.is_int)
        if self.is_const:
            return o._scale(self.const, self.is_int)
        a, b = _coerce_pair(self.z3(), o.z3())
        return Sym(self.ctx, None, ast=a * b, is_int=self.is_int and o.is_int)

    __rmul__ = __mul__

    def __truediv__(self, other):
        o = Sym._lift(self.ctx, other)
        if o is None:
            return NotImplemented
        if o.is_const:
            if o.const == 0:
                raise ZeroDivisionError("division by zero")
            return self._scale(1 / o.const, False)
        a, b = self.z3(), o.z3()
        if a.sort() == z3.IntSort():
            a = z3.ToReal(a)
        if b.sort() == z3.IntSort():
            b = z3.ToReal(b)
        # division by a symbolic value: the caller must have excluded zero on this path
        if bool(o == 0):
            raise ZeroDivisionError("division by zero")
        return Sym(self.ctx, None, ast=a / b, is_int=False)

    def __rtruediv__(self, other):
        o = Sym._lift(self.ctx, other)
        if o is None:
            return NotImplemented
        return o.__truediv__(self)

    def __floordiv__(self, other):
        o = Sym._lift(self.ctx, other)
        if o is None:
            return NotImplemented
        if not (self.is_int and o.is_int):
            raise EngineUnsupported("floor division of non-integers")
        if bool(o == 0):
            raise ZeroDivisionError("integer division or modulo by zero")
        a, b = self.z3(), o.z3()
        # Python floor division.  z3 `div` is floor for a positive divisor; for b < 0 use floor(a/b) = (-a) div (-b).
        q = z3.If(b > 0, a / b, (-a) / (-b))
        return Sym(self.ctx, None, ast=q, is_int=True)

    def __rfloordiv__(self, other):
        o = Sym._lift(self.ctx, other)
        if o is None:
            return NotImplemented
        return o.__floordiv__(self)

    def __mod__(self, other):
        o = Sym._lift(self.ctx, other)
        if o is None:
            return NotImplemented
        q = self.__floordiv__(o)
        return self - q * o

    def __rmod__(self, other):
        o = Sym._lift(self.ctx, other)
        if o is None:
            return NotImplemented
        return o.__mod__(self)

    def __neg__(self):
        return self._scale(Fraction(-1), True)

    def __pos__(self):
        return self

    def __abs__(self):
        return self if bool(self >= 0) else -self

    # -- comparisons --------------------------------------------------------------------
    def _cmp(self, other, op: str):
        if isinstance(other, float) and (math.isinf(other) or math.isnan(other)):
            if math.isnan(other):
                return op == 'ne'
            pos = other > 0
            return {'lt': pos, 'le': pos, 'gt': not pos, 'ge': not pos, 'eq': False, 'ne': True}[op]
        o = Sym._lift(self.ctx, other)
        if o is None:
            return NotImplemented
        return self.ctx._compare(self, o, op)

    def __lt__(self, other):
        return self._cmp(other, 'lt')

    def __le__(self, other):
        return self._cmp(other, 'le')

    def __gt__(self, other):
        return self._cmp(other, 'gt')

    def __ge__(self, other):
        return self._cmp(other, 'ge')

    def __eq__(self, other):
        r = self._cmp(other, 'eq')
        if r is NotImplemented:
            if type(other).__module__ == 'numpy' and hasattr(other, 'shape') and getattr(other, 'shape', ()) != ():
                return NotImplemented
            return False
        return r

    def __ne__(self, other):
        r = self._cmp(other, 'ne')
        if r is NotImplemented:
            if type(other).__module__ == 'numpy' and hasattr(other, 'shape') and getattr(other, 'shape', ()) != ():
                return NotImplemented
            return True
        return r

    def __hash__(self):
        return 0x5EED  # constant: see module docstring

    # -- concretisation points -------------------------------------------------------------
    def __bool__(self):
        return bool(self != 0)

    def __float__(self):
        if self.is_const:
            return float(self.const)
        raise EngineUnsupported("float() of a symbolic value")

    def __int__(self):
        if self.is_const:
            return int(self.const)
        if self.is_int:
            return self.ctx._enumerate(self)
        # int() truncates toward zero; the truncated value is enumerated (the harness must have bounded it)
        x = self.z3()
        if x.sort() == z3.IntSort():
            return self.ctx._enumerate(Sym(self.ctx, None, ast=x, is_int=True))
        t = z3.If(x >= 0, z3.ToInt(x), -z3.ToInt(-x))
        return self.ctx._enumerate(Sym(self.ctx, None, ast=t, is_int=True))

    def __index__(self):
        if self.is_const and self.const.denominator == 1:
            return int(self.const)
        if self.is_int:
            return self.ctx._enumerate(self)
        raise EngineUnsupported("__index__ of a symbolic real")

    def __round__(self, n=None):
        if self.is_int:
            return self
        raise EngineUnsupported("round() of a symbolic real")

    def __repr__(self):
        if self.ast is not None:
            return f"Sym<{self.ast}>"
        parts = [f"{c}*{v}" if c != 1 else v for v, c in sorted(self.lin.items())]
        if self.const != 0 or not parts:
            parts.append(str(self.const))
        return "Sym<" + " + ".join(parts) + ">"

    __str__ = __repr__

    def __format__(self, spec):
        return repr(self)


def _coerce_pair(a, b):
    if a.sort() != b.sort():
        if a.sort() == z3.IntSort():
            a = z3.ToReal(a)
        if b.sort() == z3.IntSort():
            b = z3.ToReal(b)
    return a, b


# ---------------------------------------------------------------------------------------
# Symbolic booleans
# ---------------------------------------------------------------------------------------
class SymBool:
    """kind/key/neg describe a canonical linear atom; otherwise `expr` is a z3 Bool term."""
    __slots__ = ('ctx', 'kind', 'key', 'neg', 'expr')

    def __init__(self, ctx, kind=None, key=None, neg=False, expr=None):
        self.ctx = ctx
        self.kind = kind
        self.key = key
        self.neg = neg
        self.expr = expr

    def z3(self):
        if self.expr is not None:
            return self.expr
        e = self.ctx._atom_to_z3(self.kind, self.key)
        return z3.Not(e) if self.neg else e

    def __bool__(self):
        return self.ctx._branch(self)

    def __invert__(self):
        if self.expr is not None:
            return SymBool(self.ctx, expr=z3.Not(self.expr))
        return SymBool(self.ctx, self.kind, self.key, not self.neg)

    def _lift(self, other):
        if isinstance(other, SymBool):
            return other.z3()
        if isinstance(other, (bool, int)):
            return z3.BoolVal(bool(other))
        raise TypeError(other)

    def __and__(self, other):
        if other is True:
            return self
        if other is False:
            return False
        return SymBool(self.ctx, expr=z3.And(self.z3(), self._lift(other)))

    __rand__ = __and__

    def __or__(self, other):
        if other is True:
            return True
        if other is False:
            return self
        return SymBool(self.ctx, expr=z3.Or(self.z3(), self._lift(other)))

    __ror__ = __or__

    def __eq__(self, other):
        if isinstance(other, (SymBool, bool)):
            return SymBool(self.ctx, expr=(self.z3() == self._lift(other)))
        return False

    def __ne__(self, other):
        r = self.__eq__(other)
        if r is False:
            return True
        return ~r

    def __hash__(self):
        return 0xB001

    def __repr__(self):
        return f"SymBool<{self.z3()}>"


def s_and(*xs):
    """Conjunction that never forks (plain bools are folded)."""
    acc = True
    for x in xs:
        if x is False or (isinstance(x, bool) and not x):
            return False
        if x is True or isinstance(x, bool):
            continue
        acc = x if acc is True else (acc & x)
    return acc


def s_or(*xs):
    acc = False
    for x in xs:
        if x is True or (isinstance(x, bool) and x):
            return True
        if x is False or isinstance(x, bool):
            continue
        acc = x if acc is False else (acc | x)
    return acc


def s_not(x):
    if isinstance(x, SymBool):
        return ~x
    return not x


def s_implies(a, b):
    return s_or(s_not(a), b)


def s_eq(a, b):
    """Equality of two numbers as a non-forking condition."""
    r = (a == b)
    return r


# ---------------------------------------------------------------------------------------
# Context
# ---------------------------------------------------------------------------------------
class Violation:
    def __init__(self, label: str, info: dict, model: dict, choices: list):
        self.label = label
        self.info = info
        self.model = model
        self.choices = choices

    def to_json(self):
        return {'label': self.label, 'info': self.info, 'model': self.model, 'choices': self.choices}


class Ctx:
    """
    One context per path.  mode 'sym': symbolic execution.  mode 'conc': plain concrete run
    (twin / replay): `real()`/`int_()` return python numbers from `model`, `choice()` follows
    `choices`, `check()` evaluates plain booleans.
    """
    GRID = 1024  # dyadic grid denominator for models (DESIGN 3.4)

    def __init__(self, mode: str = 'sym', prefix: Optional[list] = None, model: Optional[dict] = None,
                 choices: Optional[list] = None, solver: Optional[z3.Solver] = None, stats: Optional[dict] = None,
                 timeout_ms: int = 20000):
        self.mode = mode
        self.prefix = list(prefix or [])
        self.pos = 0
        self.trace: List[tuple] = []
        self.pending: List[list] = []
        self.model_in = model or {}
        self.choices_in = list(choices or [])
        self.choice_pos = 0
        self.choices_out: List[Any] = []
        self.stats = stats if stats is not None else {}
        for k in ('queries', 'solver_s', 'forks', 'forced', 'cache_hits', 'obligations', 'discharged', 'ground'):
            self.stats.setdefault(k, 0)
        self.vars: Dict[str, tuple] = {}   # name -> (sort, lo, hi)
        self.facts: Dict[tuple, bool] = {}
        self.observations: List[Tuple[str, Any]] = []
        self.check_results: List[Tuple[str, str]] = []   # (label, 'ok'|'violated')
        self.violations: List[Violation] = []
        self.reached: Dict[str, int] = {}
        self.notes: Dict[str, Any] = {}
        self._z3vars: Dict[str, Any] = {}
        self._lin_cache: Dict[tuple, Any] = {}
        self._atom_cache: Dict[tuple, Any] = {}
        self._enum_cache: Dict[tuple, int] = {}
        self._created: Dict[str, Any] = {}
        self.hints: List[Any] = []
        self.model = None
        if mode == 'sym':
            self.s = solver if solver is not None else z3.Solver()
            self.timeout_ms = timeout_ms
            self.s.set('timeout', timeout_ms)
            self.s.push()
        else:
            self.s = None

    # -- variable creation -------------------------------------------------------------------
    def real(self, name: str, lo=None, hi=None, lo_strict: bool = False, reuse: bool = False):
        if self.mode == 'conc':
            # variables declared after the point where a counterexample model was taken get a default inside their bounds
            v = self.model_in.get(name)
            if v is None:
                v = (lo if lo is not None else 0)
                if lo_strict and lo is not None:
                    v = lo + 1
                return float(v)
            return _to_py(v, False)
        if name in self.vars:
            if reuse:
                return self._created[name]
            raise ValueError(f"duplicate symbolic variable {name}")
        self.vars[name] = ('real', lo, hi)
        x = z3.Real(name)
        self._z3vars[name] = x
        if lo is not None:
            self.s.add(x > _zval(lo, False) if lo_strict else x >= _zval(lo, False))
        if hi is not None:
            self.s.add(x <= _zval(hi, False))
        self._created[name] = Sym(self, {name: Fraction(1)}, Fraction(0), is_int=False)
        return self._created[name]

    def int_(self, name: str, lo=None, hi=None):
        if self.mode == 'conc':
            v = self.model_in.get(name)
            if v is None:
                return int(lo if lo is not None else (hi if hi is not None and hi < 0 else 0))
            return int(_to_py(v, True))
        if name in self.vars:
            raise ValueError(f"duplicate symbolic variable {name}")
        self.vars[name] = ('int', lo, hi)
        x = z3.Int(name)
        self._z3vars[name] = x
        if lo is not None:
            self.s.add(x >= lo)
        if hi is not None:
            self.s.add(x <= hi)
        return Sym(self, {name: Fraction(1)}, Fraction(0), is_int=True)

    def bool_(self, name: str):
        if self.mode == 'conc':
            return bool(self.model_in[name])
        self.vars[name] = ('bool', None, None)
        x = z3.Bool(name)
        self._z3vars[name] = x
        return SymBool(self, expr=x)

    def const(self, value, is_int: bool = False):
        """A constant wrapped as Sym, so that it hashes like the symbolic values it may meet in a container."""
        if self.mode == 'conc':
            return value
        return Sym(self, {}, _frac(value), is_int=is_int)

    # -- program-shape choices ------------------------------------------------------------------
    def choice(self, name: str, options: list):
        n = len(options)
        if n == 0:
            raise PathAbort()
        if self.mode == 'conc':
            idx = self.choices_in[self.choice_pos]
            self.choice_pos += 1
            self.choices_out.append(idx)
            return options[idx]
        if self.pos < len(self.prefix):
            ent = self.prefix[self.pos]
            self.pos += 1
            if ent[0] != 'c' or ent[1] != name or ent[3] != n:
                raise EngineNondeterminism(f"expected {ent}, got choice {name}/{n}")
            idx = ent[2]
        else:
            idx = 0
            for alt in range(n - 1, 0, -1):
                self.pending.append(self.trace + [('c', name, alt, n)])
        self.trace.append(('c', name, idx, n))
        self.choices_out.append(idx)
        return options[idx]

    # -- z3 term construction ---------------------------------------------------------------------
    def _var(self, name):
        return self._z3vars[name]

    def _lin_to_z3(self, lin, const, is_int):
        key = (tuple(sorted(lin.items())), const, is_int)
        e = self._lin_cache.get(key)
        if e is not None:
            return e
        all_int = is_int and const.denominator == 1 and all(
            self.vars[v][0] == 'int' and c.denominator == 1 for v, c in lin.items())
        terms = []
        for v, c in sorted(lin.items()):
            zv = self._z3vars[v]
            if all_int:
                terms.append(zv if c == 1 else zv * int(c))
            else:
                if self.vars[v][0] == 'int':
                    zv = z3.ToReal(zv)
                terms.append(zv if c == 1 else zv * z3.RealVal(str(c)))
        if all_int:
            e = z3.IntVal(int(const)) if not terms else (z3.Sum(terms) + int(const) if const != 0 else z3.Sum(terms))
            if len(terms) == 1 and const == 0:
                e = terms[0]
        else:
            cz = z3.RealVal(str(const))
            e = cz if not terms else (z3.Sum(terms) + cz if const != 0 else z3.Sum(terms))
            if len(terms) == 1 and const == 0:
                e = terms[0]
        self._lin_cache[key] = e
        return e

    def _atom_to_z3(self, kind, key):
        ck = (kind, key)
        e = self._atom_cache.get(ck)
        if e is not None:
            return e
        if key[0] == 'ast':
            t = key[2]
            zero = z3.IntVal(0) if t.sort() == z3.IntSort() else z3.RealVal(0)
        else:
            lin, const, is_int = key
            t = self._lin_to_z3(dict(lin), const, is_int)
            zero = z3.IntVal(0) if t.sort() == z3.IntSort() else z3.RealVal(0)
        e = {'le': t <= zero, 'lt': t < zero, 'eq': t == zero}[kind]
        self._atom_cache[ck] = e
        return e

    # -- comparisons -> canonical atoms ---------------------------------------------------------------
    def _compare(self, a: Sym, b: Sym, op: str):
        d = a._binop_lin(b, -1)
        if d.ast is None and not d.lin:
            c = d.const
            return {'lt': c < 0, 'le': c <= 0, 'gt': c > 0, 'ge': c >= 0, 'eq': c == 0, 'ne': c != 0}[op]
        # e OP 0 with OP in lt/le/eq (+ negation)
        kind, neg, flip = {'lt': ('lt', False, False), 'le': ('le', False, False), 'eq': ('eq', False, False),
                           'ne': ('eq', True, False), 'gt': ('le', True, False), 'ge': ('lt', True, False)}[op]
        if d.ast is not None:
            key = ('ast', d.ast.get_id(), d.ast)
            return SymBool(self, kind, key, neg)
        items = sorted(d.lin.items())
        lead = items[0][1]
        scale = 1 / abs(lead)
        if lead < 0:
            # e OP 0  <=>  (-e) OP' 0 ;  e<0 <=> -e>0 <=> not(-e<=0) ; e<=0 <=> not(-e<0) ; e==0 <=> -e==0
            scale = -scale
            if kind == 'lt':
                kind, neg = 'le', not neg
            elif kind == 'le':
                kind, neg = 'lt', not neg
        # keep integrality: for all-int forms do not scale by non-unit (would create fractions) unless exact
        lin = tuple((v, c * scale) for v, c in items)
        const = d.const * scale
        is_int = d.is_int and const.denominator == 1 and all(c.denominator == 1 for _, c in lin)
        key = (lin, const, is_int)
        return SymBool(self, kind, key, neg)

    # -- facts ------------------------------------------------------------------------------------------
    def _lookup(self, kind, key) -> Optional[bool]:
        f = self.facts
        g = f.get((kind, key))
        if g is not None:
            return g
        lt, le, eq = f.get(('lt', key)), f.get(('le', key)), f.get(('eq', key))
        if kind == 'lt':
            if le is False or eq is True:
                return False
            if le is True and eq is False:
                return True
        elif kind == 'le':
            if lt is True or eq is True:
                return True
            if lt is False and eq is False:
                return False
        else:
            if lt is True or le is False:
                return False
            if le is True and lt is False:
                return True
        return None

    # -- solver helpers ----------------------------------------------------------------------------------
    def _check(self, *extra) -> str:
        t0 = time.perf_counter()
        if extra:
            self.s.push()
            for e in extra:
                self.s.add(e)
        r = self.s.check()
        m = self.s.model() if r == z3.sat else None
        if extra:
            self.s.pop()
        self.stats['queries'] += 1
        self.stats['solver_s'] += time.perf_counter() - t0
        if r == z3.unknown:
            raise Inconclusive(f"solver returned unknown: {self.s.reason_unknown()}")
        self._last_model = m
        return 'sat' if r == z3.sat else 'unsat'

    def _ensure_model(self):
        if self.model is None:
            if self._check() != 'sat':
                raise PathAbort()
            self.model = self._last_model

    def _assert(self, e):
        self.s.add(e)

    def _branch(self, sb: SymBool) -> bool:
        if self.mode != 'sym':
            raise EngineUnsupported("SymBool in concrete mode")
        if sb.expr is None:
            known = self._lookup(sb.kind, sb.key)
            if known is not None:
                self.stats['cache_hits'] += 1
                return known != sb.neg
            atom = self._atom_to_z3(sb.kind, sb.key)
            tkey = (sb.kind, _key_str(sb.key))
        else:
            atom = sb.expr
            tkey = ('x', atom.get_id())
            known = self.facts.get(tkey)
            if known is not None:
                self.stats['cache_hits'] += 1
                return known
        # value of the *atom* (not yet negated)
        if self.pos < len(self.prefix):
            ent = self.prefix[self.pos]
            self.pos += 1
            if ent[0] != 'b' or (ent[1] != tkey and ent[1][0] != 'x'):
                raise EngineNondeterminism(f"expected {ent}, got branch {tkey}")
            val = ent[2]
            self._assert(atom if val else z3.Not(atom))
            self.model = None
            self.trace.append(ent)
        else:
            self._ensure_model()
            mv = z3.is_true(self.model.eval(atom, model_completion=True))
            other = z3.Not(atom) if mv else atom
            r = self._check(other)
            val = mv
            if r == 'sat':
                self.stats['forks'] += 1
                self.pending.append(self.trace + [('b', tkey, not mv, True)])
                self.trace.append(('b', tkey, mv, True))
            else:
                self.stats['forced'] += 1
                self.trace.append(('b', tkey, mv, False))
            self._assert(atom if val else z3.Not(atom))
        if sb.expr is None:
            self.facts[(sb.kind, sb.key)] = val
            return val != sb.neg
        self.facts[tkey] = val
        return val

    def _enumerate(self, x: Sym) -> int:
        """Fork over every feasible value of a bounded symbolic integer (enumerable)."""
        k = x._key()
        if k in self._enum_cache:
            return self._enum_cache[k]
        zx = x.z3()
        name = 'enum:' + str(zx)
        if self.pos < len(self.prefix):
            ent = self.prefix[self.pos]
            self.pos += 1
            if ent[0] != 'e' or ent[1] != name:
                raise EngineNondeterminism(f"expected {ent}, got enumerate {name}")
            if ent[2] is not None:
                val = ent[2]
                self.trace.append(ent)
            else:
                val = self._pick(zx, name, list(ent[3]))
        else:
            val = self._pick(zx, name, [])
        self._assert(zx == val)
        self.model = None
        self._enum_cache[k] = val
        return val

    def _pick(self, zx, name, tried):
        if len(tried) > 256:
            raise EngineUnsupported(f"enumeration of an unbounded symbolic integer: {name}")
        if self._check(*[zx != t for t in tried]) != 'sat':
            raise PathAbort()
        val = self._last_model.eval(zx, model_completion=True).as_long()
        if self._check(*[zx != t for t in tried + [val]]) == 'sat':
            self.stats['forks'] += 1
            self.pending.append(self.trace + [('e', name, None, tried + [val])])
        self.trace.append(('e', name, val, tried))
        return val

    # -- harness API ----------------------------------------------------------------------------------------
    def assume(self, cond):
        if self.mode == 'conc':
            if not cond:
                raise PathAbort()
            return
        if isinstance(cond, SymBool):
            e = cond.z3()
            self._assert(e)
            self.model = None
            if self._check() != 'sat':
                raise PathAbort()
            self.model = self._last_model
            if cond.expr is None:
                self.facts[(cond.kind, cond.key)] = not cond.neg
        elif not cond:
            raise PathAbort()

    def reach(self, label: str):
        self.reached[label] = self.reached.get(label, 0) + 1

    def observe(self, label: str, value):
        self.observations.append((label, value))

    def note(self, key, value):
        self.notes[key] = value

    def check(self, label: str, cond, info: Optional[dict] = None):
        """Obligation: `cond` must hold for every value of the symbolic inputs on this path."""
        self.reach(label)
        self.stats['obligations'] += 1
        if self.mode == 'conc':
            ok = bool(cond)
            self.check_results.append((label, 'ok' if ok else 'violated'))
            return ok
        if isinstance(cond, SymBool):
            neg = z3.Not(cond.z3())
            r = self._check(neg)
            if r == 'unsat':
                self.stats['discharged'] += 1
                self.check_results.append((label, 'ok'))
                return True
            model = self._grid_model(neg)
            self.check_results.append((label, 'violated'))
            self.violations.append(Violation(label, _eval_info(info, self, model), model, list(self.choices_out)))
            return False
        self.stats['ground'] += 1
        if cond:
            self.stats['discharged'] += 1
            self.check_results.append((label, 'ok'))
            return True
        model = self._grid_model()
        self.check_results.append((label, 'violated'))
        self.violations.append(Violation(label, _eval_info(info, self, model), model, list(self.choices_out)))
        return False

    def _grid_model(self, *extra) -> dict:
        """A model of pc (and extra); reals on the dyadic grid whenever that is cheap to obtain (DESIGN 3.4)."""
        # counterexample models are first sought inside the harness' "reasonable region" hints (e.g. values whose floating point
        # replay is faithful); the claim itself is not restricted by them
        m = None
        if self.hints:
            try:
                if self._check(*extra, *self.hints) == 'sat':
                    m = self._last_model
                    extra = tuple(extra) + tuple(self.hints)
            except Inconclusive:
                m = None
        if m is None:
            if self._check(*extra) != 'sat':
                raise PathAbort()
            m = self._last_model
        out = self._model_dict(m)
        if _dyadic(out):
            return out
        self.stats['grid_queries'] = self.stats.get('grid_queries', 0) + 1
        grid = []
        for name, (sort, _, _) in self.vars.items():
            if sort == 'real':
                k = z3.Int('grid!' + name)
                grid.append(self._z3vars[name] * self.GRID == z3.ToReal(k))
                grid.append(k <= self.GRID * 4096)
                grid.append(k >= -self.GRID * 4096)
        self.s.set('timeout', 1500)
        try:
            r = self._check(*extra, *grid)
            if r == 'sat':
                out = self._model_dict(self._last_model)
        except Inconclusive:
            self.stats['grid_failed'] = self.stats.get('grid_failed', 0) + 1
        finally:
            self.s.set('timeout', self.timeout_ms)
        return out

    def _model_dict(self, m) -> dict:
        out = {}
        for name, (sort, _, _) in self.vars.items():
            v = m.eval(self._z3vars[name], model_completion=True)
            if sort == 'bool':
                out[name] = bool(z3.is_true(v))
            elif sort == 'int':
                out[name] = v.as_long()
            else:
                out[name] = [v.numerator_as_long(), v.denominator_as_long()]
        return out

    def path_model(self) -> dict:
        return self._grid_model()

    def close(self):
        if self.s is not None:
            self.s.pop()


def _dyadic(model: dict) -> bool:
    for v in model.values():
        if isinstance(v, (list, tuple)) and (v[1] & (v[1] - 1)):
            return False
    return True


def _key_str(key):
    if key[0] == 'ast':
        return ('ast', str(key[2]))
    return key


def _zval(x, is_int):
    if is_int:
        return z3.IntVal(int(x))
    return z3.RealVal(str(_frac(x)))


def _to_py(v, is_int):
    if isinstance(v, (list, tuple)):
        num, den = v
        if den == 1:
            return int(num) if is_int else float(num)
        f = Fraction(num, den)
        x = float(f)
        return x
    return v


def eval_sym(value, model: dict):
    """Evaluate a (possibly symbolic) observation under a model produced by `_grid_model` -> Fraction/bool/...."""
    if isinstance(value, Sym):
        if value.ast is not None:
            return _eval_ast(value.ctx, value.ast, model)
        tot = value.const
        for v, c in value.lin.items():
            tot += c * _model_frac(model[v])
        return tot
    if isinstance(value, SymBool):
        return _eval_ast(value.ctx, value.z3(), model)
    if isinstance(value, (list, tuple)):
        return type(value)(eval_sym(x, model) for x in value)
    if isinstance(value, dict):
        return {k: eval_sym(x, model) for k, x in value.items()}
    return value


def _model_frac(v) -> Fraction:
    if isinstance(v, (list, tuple)):
        return Fraction(v[0], v[1])
    if isinstance(v, bool):
        return Fraction(int(v))
    return Fraction(v)


def _eval_ast(ctx, ast, model):
    subs = []
    for name, (sort, _, _) in ctx.vars.items():
        zv = ctx._z3vars[name]
        mv = model[name]
        if sort == 'bool':
            subs.append((zv, z3.BoolVal(bool(mv))))
        elif sort == 'int':
            subs.append((zv, z3.IntVal(int(mv))))
        else:
            subs.append((zv, z3.RealVal(str(_model_frac(mv)))))
    r = z3.simplify(z3.substitute(ast, *subs))
    if z3.is_true(r):
        return True
    if z3.is_false(r):
        return False
    if z3.is_int_value(r):
        return Fraction(r.as_long())
    if z3.is_rational_value(r):
        return Fraction(r.numerator_as_long(), r.denominator_as_long())
    raise EngineUnsupported(f"cannot evaluate {ast} -> {r}")


def _eval_info(info, ctx, model):
    if not info:
        return {}
    out = {}
    for k, v in info.items():
        try:
            e = eval_sym(v, model)
            out[k] = _jsonable(e)
        except BaseException as ex:  # noqa
            out[k] = f"<{type(ex).__name__}>"
    return out


def _jsonable(x):
    if isinstance(x, Fraction):
        return float(x) if x.denominator != 1 else int(x)
    if isinstance(x, (list, tuple)):
        return [_jsonable(y) for y in x]
    if isinstance(x, dict):
        return {str(k): _jsonable(v) for k, v in x.items()}
    if isinstance(x, (str, int, float, bool)) or x is None:
        return x
    return repr(x)
