"""
Symbolic-phase stabiliser tableau (Aaronson-Gottesman) for the gate set the Stim exporter emits.

X/Z bits are concrete; every sign bit is an affine form over GF(2): (constant, set of variable names).  Variables are
(i) symbolic initial-state bits and (ii) one fresh variable per measurement whose outcome is random.  All Clifford updates XOR
sign bits with concrete phase corrections, so affine forms are closed under every operation.  The harness turns the forms into z3
terms and lets the solver decide, for all values of all variables at once, that a record bit equals its prescribed term or that a
detector parity does not depend on any random-outcome variable.
"""
from __future__ import annotations

from typing import Callable, Dict, FrozenSet, List, Tuple

Form = Tuple[int, FrozenSet[str]]
ZERO: Form = (0, frozenset())
ONE: Form = (1, frozenset())


def fxor(a: Form, b: Form) -> Form:
    return (a[0] ^ b[0], a[1] ^ b[1])


def fconst(a: Form, c: int) -> Form:
    return (a[0] ^ (c & 1), a[1])


def var(name: str) -> Form:
    return (0, frozenset([name]))


class Tableau:
    def __init__(self, n: int, fresh: Callable[[], str]):
        self.n = n
        self.fresh = fresh
        self.x = [[0] * n for _ in range(2 * n + 1)]
        self.z = [[0] * n for _ in range(2 * n + 1)]
        self.r: List[Form] = [ZERO for _ in range(2 * n + 1)]
        for i in range(n):
            self.x[i][i] = 1
            self.z[n + i][i] = 1
        self.record: List[Form] = []
        self.random_measurements = 0
        self.bad_lookbacks: List[tuple] = []   # (unit index, lookback, records so far): stim rejects a lookback before the first record

    # -- single qubit gates ------------------------------------------------------------------------------------
    def h(self, a):
        for i in range(2 * self.n):
            if self.x[i][a] & self.z[i][a]:
                self.r[i] = fconst(self.r[i], 1)
            self.x[i][a], self.z[i][a] = self.z[i][a], self.x[i][a]

    def s(self, a):
        for i in range(2 * self.n):
            if self.x[i][a] & self.z[i][a]:
                self.r[i] = fconst(self.r[i], 1)
            self.z[i][a] ^= self.x[i][a]

    def pauli_x(self, a, cond: Form = ONE):
        for i in range(2 * self.n):
            if self.z[i][a]:
                self.r[i] = fxor(self.r[i], cond)

    def pauli_z(self, a, cond: Form = ONE):
        for i in range(2 * self.n):
            if self.x[i][a]:
                self.r[i] = fxor(self.r[i], cond)

    def pauli_y(self, a):
        for i in range(2 * self.n):
            if self.x[i][a] ^ self.z[i][a]:
                self.r[i] = fconst(self.r[i], 1)

    def sqrt_x(self, a):
        self.h(a); self.s(a); self.h(a)

    def sqrt_x_dag(self, a):
        self.h(a); self.s(a); self.s(a); self.s(a); self.h(a)

    def sqrt_y(self, a):        # X -> -Z, Z -> X
        self.pauli_z(a); self.h(a)

    def sqrt_y_dag(self, a):    # X -> Z, Z -> -X
        self.h(a); self.pauli_z(a)

    # -- two qubit gates -----------------------------------------------------------------------------------------
    def cnot(self, a, b):
        for i in range(2 * self.n):
            if self.x[i][a] & self.z[i][b] & (self.x[i][b] ^ self.z[i][a] ^ 1):
                self.r[i] = fconst(self.r[i], 1)
            self.x[i][b] ^= self.x[i][a]
            self.z[i][a] ^= self.z[i][b]

    def cz(self, a, b):
        self.h(b); self.cnot(a, b); self.h(b)

    # -- measurement -----------------------------------------------------------------------------------------------
    @staticmethod
    def _g(x1, z1, x2, z2):
        if not x1 and not z1:
            return 0
        if x1 and z1:
            return z2 - x2
        if x1 and not z1:
            return z2 * (2 * x2 - 1)
        return x2 * (1 - 2 * z2)

    def _rowsum(self, h, i):
        tot = 0
        for j in range(self.n):
            tot += self._g(self.x[i][j], self.z[i][j], self.x[h][j], self.z[h][j])
        # 2 r_h + 2 r_i + tot  (mod 4) in {0, 2}; on destabiliser rows the exponent may be odd -- their sign is irrelevant
        phase = (tot % 4) // 2
        self.r[h] = fconst(fxor(self.r[h], self.r[i]), phase)
        for j in range(self.n):
            self.x[h][j] ^= self.x[i][j]
            self.z[h][j] ^= self.z[i][j]

    def measure(self, a) -> Form:
        n = self.n
        p = next((i for i in range(n, 2 * n) if self.x[i][a]), None)
        if p is not None:
            for i in range(2 * n):
                if i != p and self.x[i][a]:
                    self._rowsum(i, p)
            self.x[p - n] = list(self.x[p]); self.z[p - n] = list(self.z[p]); self.r[p - n] = self.r[p]
            self.x[p] = [0] * n; self.z[p] = [0] * n; self.z[p][a] = 1
            out = var(self.fresh())
            self.random_measurements += 1
            self.r[p] = out
        else:
            s = 2 * n
            self.x[s] = [0] * n; self.z[s] = [0] * n; self.r[s] = ZERO
            for i in range(n):
                if self.x[i][a]:
                    self._rowsum(s, i + n)
            out = self.r[s]
        self.record.append(out)
        return out

    def reset(self, a):
        self.record_backup = len(self.record)
        m = self.measure(a)
        self.record.pop()
        self.pauli_x(a, m)


GATES_1Q = {'I': None, 'X': 'pauli_x', 'Y': 'pauli_y', 'Z': 'pauli_z', 'H': 'h', 'S': 's', 'SQRT_X': 'sqrt_x', 'SQRT_X_DAG': 'sqrt_x_dag',
            'SQRT_Y': 'sqrt_y', 'SQRT_Y_DAG': 'sqrt_y_dag'}


def run_units(units: list, n_qubits: int, fresh: Callable[[], str], conditional_x: Dict[int, Form] = None):
    """
    Executes the normal-form units of an exported circuit.  `conditional_x`: unit index -> form; an `X` unit at that index is applied
    conditionally on the form (symbolic initial state).  Returns (tableau, detector parities, observable parities).
    """
    t = Tableau(n_qubits, fresh)
    detectors: List[Form] = []
    observables: List[Form] = []
    conditional_x = conditional_x or {}
    for k, (name, targets, args) in enumerate(units):
        if name in ('TICK', 'SHIFT_COORDS', 'QUBIT_COORDS'):
            continue
        if name in ('DETECTOR', 'OBSERVABLE_INCLUDE'):
            acc = ZERO
            for tg in targets:
                assert isinstance(tg, tuple) and tg[0] == 'rec'
                pos = len(t.record) + int(tg[1])
                if not (0 <= pos < len(t.record)):
                    t.bad_lookbacks.append((k, int(tg[1]), len(t.record)))
                    continue
                acc = fxor(acc, t.record[pos])
            (detectors if name == 'DETECTOR' else observables).append(acc)
            continue
        if name == 'M':
            t.measure(targets[0])
        elif name == 'R':
            t.reset(targets[0])
        elif name == 'CZ':
            t.cz(targets[0], targets[1])
        elif name in GATES_1Q:
            fn = GATES_1Q[name]
            if fn is None:
                continue
            if name == 'X' and k in conditional_x:
                t.pauli_x(targets[0], conditional_x[k])
            else:
                getattr(t, fn)(targets[0])
        else:
            raise ValueError(f"gate {name} not supported by the tableau")
    return t, detectors, observables
