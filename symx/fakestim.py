"""
fakestim -- pure-Python recorder implementing the subset of the stim API the exporter uses (Circuit, CircuitInstruction,
target_rec, append, +=, *, iteration, flattened).  Installed in place of the `stim` module attribute of the exporter's modules
for symbolic paths, so that record targets / gate arguments may be symbolic integers.  The concrete twin of every path runs the
real stim; both sides are compared in a normal form that undoes stim's fusing of adjacent instructions (`normal_form`).
"""
from __future__ import annotations

import contextlib
import importlib
from typing import Any, List

TWO_QUBIT = {'CZ', 'CX', 'CNOT', 'CY', 'SWAP', 'ISWAP'}
NO_FUSE = {'DETECTOR', 'OBSERVABLE_INCLUDE', 'SHIFT_COORDS', 'TICK', 'QUBIT_COORDS'}
CANONICAL = {'MZ': 'M', 'RZ': 'R', 'CNOT': 'CX', 'ZCZ': 'CZ', 'ZCX': 'CX'}


class GateTarget:
    def __init__(self, kind: str, value: Any):
        self.kind = kind
        self.value = value

    @property
    def is_measurement_record_target(self):
        return self.kind == 'rec'

    def __repr__(self):
        return f"rec[{self.value}]" if self.kind == 'rec' else str(self.value)


REC_CHECKS: List[Any] = []   # symbolic lookbacks passed to target_rec on the current path (stim itself requires k < 0)


def target_rec(k):
    REC_CHECKS.append(k)
    return GateTarget('rec', k)


class CircuitInstruction:
    def __init__(self, name: str, targets=None, gate_args=None):
        self.name = CANONICAL.get(name, name)
        self._targets = [t if isinstance(t, GateTarget) else GateTarget('qubit', t) for t in (targets or [])]
        self._args = list(gate_args or [])

    def targets_copy(self):
        return list(self._targets)

    def gate_args_copy(self):
        return list(self._args)

    def __repr__(self):
        a = f"({', '.join(map(str, self._args))})" if self._args else ""
        return f"{self.name}{a} " + " ".join(map(repr, self._targets))


class RepeatBlock:
    def __init__(self, count: int, body: 'Circuit'):
        self.repeat_count = count
        self._body = body
        self.name = 'REPEAT'

    def body_copy(self):
        return self._body


class Circuit:
    def __init__(self, items=None):
        self.items = list(items or [])

    def append(self, instruction, targets=None, arg=None):
        if isinstance(instruction, str):
            instruction = CircuitInstruction(instruction, targets or [], arg if isinstance(arg, (list, tuple)) else ([] if arg is None else [arg]))
        # like stim: an argument-less instruction appended right after one of the same gate is fused into it (targets concatenated)
        last = self.items[-1] if self.items else None
        if isinstance(last, CircuitInstruction) and isinstance(instruction, CircuitInstruction) and last.name == instruction.name \
                and instruction.name not in NO_FUSE and not last._args and not instruction._args:
            # (instructions that carry arguments are left unfused: both sides are compared in a normal form that splits targets anyway,
            #  and fusing them would only add solver forks on argument equality)
            self.items[-1] = CircuitInstruction(last.name, last._targets + instruction._targets, last._args)
            return
        self.items.append(instruction)

    def __iadd__(self, other: 'Circuit'):
        for it in other.items:
            if isinstance(it, RepeatBlock):
                self.items.append(it)
            else:
                self.append(it)
        return self

    def __add__(self, other: 'Circuit'):
        out = Circuit(self.items)
        out += other
        return out

    def __mul__(self, n):
        n = int(n)
        if n == 0:
            return Circuit()
        if n == 1:
            return Circuit(self.items)
        return Circuit([RepeatBlock(n, Circuit(self.items))])

    __rmul__ = __mul__

    def copy(self) -> 'Circuit':
        return Circuit(self.items)

    def __eq__(self, other):
        return isinstance(other, Circuit) and normal_form(self) == normal_form(other)

    __hash__ = None

    def __iter__(self):
        return iter(self.items)

    def __len__(self):
        return len(self.items)

    def flattened(self) -> 'Circuit':
        """Like stim: REPEAT blocks unrolled, SHIFT_COORDS removed and folded into the coordinates of later DETECTORs."""
        out = []
        shift: List[Any] = []
        for it in _expand(self):
            if it.name == 'SHIFT_COORDS':
                args = it.gate_args_copy()
                for i, a in enumerate(args):
                    if i < len(shift):
                        shift[i] = shift[i] + a
                    else:
                        shift.append(a)
                continue
            if it.name in ('DETECTOR', 'QUBIT_COORDS') and shift and it.gate_args_copy():
                args = it.gate_args_copy()
                new_args = [a + (shift[i] if i < len(shift) else 0) for i, a in enumerate(args)]
                out.append(CircuitInstruction(it.name, it.targets_copy(), new_args))
                continue
            out.append(it)
        return Circuit(out)

    @property
    def num_measurements(self):
        return sum(len(i.targets_copy()) for i in self.flattened() if i.name in ('M', 'MX', 'MY', 'MR'))

    # like stim: counts over the expanded circuit; num_qubits = 1 + largest qubit target (record targets are not qubits)
    @property
    def num_qubits(self):
        top = -1
        for i in _expand(self):
            if i.name in ('DETECTOR', 'OBSERVABLE_INCLUDE', 'TICK', 'SHIFT_COORDS'):
                continue
            for t in i.targets_copy():
                if isinstance(t, GateTarget):
                    if t.is_measurement_record_target:
                        continue
                    t = t.value
                top = max(top, int(t))
        return top + 1

    def _count(self, name):
        return sum(1 for i in _expand(self) if i.name == name)

    @property
    def num_detectors(self):
        return self._count('DETECTOR')

    @property
    def num_ticks(self):
        return self._count('TICK')

    @property
    def num_observables(self):
        idx = [int(a) for i in _expand(self) if i.name == 'OBSERVABLE_INCLUDE' for a in i.gate_args_copy()[:1]]
        return max(idx) + 1 if idx else 0


_MODULES = ['qce_circuit.addon_stim.intrf_stim_factory', 'qce_circuit.addon_stim.circuit_operations', 'qce_circuit.addon_stim.factory_manager',
            'qce_circuit.addon_stim.operation_factories.factory_basic_operations', 'qce_circuit.addon_stim.operation_factories.factory_barrier_operations',
            'qce_circuit.addon_stim.operation_factories.factory_detector_operations']


@contextlib.contextmanager
def installed(on: bool = True):
    """Replaces the `stim` attribute of the exporter's modules by this module (symbolic paths only)."""
    import sys
    me = sys.modules[__name__]
    saved = []
    del REC_CHECKS[:]
    if on:
        for name in _MODULES:
            m = importlib.import_module(name)
            if hasattr(m, 'stim'):
                saved.append((m, m.stim))
                m.stim = me
    try:
        yield
    finally:
        for m, orig in saved:
            m.stim = orig


def normal_form(circuit) -> list:
    """List of (name, targets, args) units of the flattened circuit, with stim's fusing of adjacent instructions undone."""
    out = []
    for ins in _expand(circuit):
        name = ins.name
        targets = []
        for t in ins.targets_copy():
            if getattr(t, 'is_measurement_record_target', False):
                targets.append(('rec', t.value))
            else:
                targets.append(t.value)
        args = list(ins.gate_args_copy())
        if name in NO_FUSE:
            out.append((name, targets, args))
        elif name in TWO_QUBIT:
            for i in range(0, len(targets), 2):
                out.append((name, targets[i:i + 2], args))
        else:
            if not targets:
                out.append((name, [], args))
            for t in targets:
                out.append((name, [t], args))
    return out


def _expand(circuit):
    """Instructions with REPEAT blocks unrolled by hand (stim's own flattened() also rewrites SHIFT_COORDS away)."""
    for ins in circuit:
        if hasattr(ins, 'body_copy'):
            body = list(_expand(ins.body_copy()))
            for _ in range(ins.repeat_count):
                for b in body:
                    yield b
        else:
            yield ins
